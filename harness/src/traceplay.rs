//! C20: one replay per transition of the Tracing state graph, on two real OS threads stepped
//! through channels; after every step both threads report their view (is_enabled()).

use crate::chessplay::unwrap_tlc_line;
use crate::util::*;
use serde_json::{json, Value};
use std::io::BufRead;
use std::sync::mpsc::{channel, Receiver, Sender};

enum Cmd {
    Op(String),
    View,
    Reset,
    Quit,
}

fn worker(rx: Receiver<Cmd>, tx: Sender<bool>) {
    let mut saved: Option<tracing_enabled::LocalEnableState> = None;
    while let Ok(cmd) = rx.recv() {
        match cmd {
            Cmd::Op(op) => {
                match op.as_str() {
                    "enable" => tracing_enabled::enable(),
                    "disable" => tracing_enabled::disable(),
                    "toggle" => tracing_enabled::toggle(),
                    "local_enable" => tracing_enabled::local_enable(),
                    "local_disable" => tracing_enabled::local_disable(),
                    "local_toggle" => tracing_enabled::local_toggle(),
                    "take" => saved = Some(tracing_enabled::local_take()),
                    "restore" => {
                        if let Some(s) = saved.take() {
                            tracing_enabled::restore(s)
                        }
                    }
                    _ => {
                        let _ = tracing_enabled::is_enabled();
                    }
                }
                let _ = tx.send(true);
            }
            Cmd::View => {
                let _ = tx.send(tracing_enabled::is_enabled());
            }
            Cmd::Reset => {
                // back to "no override", nothing saved
                saved = None;
                drop(tracing_enabled::local_take());
                let _ = tx.send(true);
            }
            Cmd::Quit => break,
        }
    }
}

pub fn replay_tracing(_opts: &Opts) -> i32 {
    let mut chans = vec![];
    let mut handles = vec![];
    for _ in 0..2 {
        let (ctx, crx) = channel::<Cmd>();
        let (rtx, rrx) = channel::<bool>();
        handles.push(std::thread::spawn(move || worker(crx, rtx)));
        chans.push((ctx, rrx));
    }
    let call = |t: usize, c: Cmd| -> bool {
        chans[t].0.send(c).unwrap();
        chans[t].1.recv().unwrap()
    };
    let stdin = std::io::stdin();
    let mut lines = 0u64;
    let mut steps = 0u64;
    let mut mism = 0u64;
    let mut samples = vec![];
    for line in stdin.lock().lines() {
        let Ok(line) = line else { break };
        let Some(rec) = unwrap_tlc_line(&line, "TRC") else { continue };
        lines += 1;
        // initial state: global enabled, no overrides
        call(0, Cmd::Op("enable".into()));
        call(0, Cmd::Reset);
        call(1, Cmd::Reset);
        let path = rec["path"].as_array().cloned().unwrap_or_default();
        for (i, st) in path.iter().enumerate() {
            let t = st["t"].as_u64().unwrap() as usize - 1;
            call(t, Cmd::Op(st["op"].as_str().unwrap().to_string()));
            steps += 1;
            let v1 = call(0, Cmd::View);
            let v2 = call(1, Cmd::View);
            if json!(v1) != st["v1"] || json!(v2) != st["v2"] {
                mism += 1;
                out_line("MISMATCH", &json!({"prop": "C20", "kind": "view-after-step", "case": {"path": rec["path"], "step": i},
                                             "exp": [st["v1"], st["v2"]], "got": [v1, v2]}));
                break;
            }
        }
        if samples.len() < 2 && path.len() >= 4 {
            samples.push(json!({"path": rec["path"]}));
        }
    }
    for (tx, _) in &chans {
        let _ = tx.send(Cmd::Quit);
    }
    for h in handles {
        let _ = h.join();
    }
    out_line("SUMMARY", &json!({"counts": {"lines": lines, "steps": steps}, "distinct": lines, "nontrivial": lines,
                                "mismatches": mism, "samples": samples, "extra": {}}));
    0
}

#[allow(dead_code)]
fn _v(_: Value) {}
