//! Search scenarios (C11, C12, C13): run the real engine under a counting time limit and record
//! the hook events (validated by spec/SearchTrace.tla).

use crate::chessplay::unwrap_tlc_line;
use crate::proj::*;
use crate::util::*;
use chess_engine::verif::{self, Event};
use chess_engine::{Engine, Score, ThreeFold, Timeout};
use chess_movegen::Board;
use rand::seq::SliceRandom;
use rand::Rng;
use serde_json::{json, Value};
use std::cell::Cell;
use std::io::{BufRead, Write};

/// marker payload: the watchdog gave up on a search that kept polling long after expiry
struct NonTermination;

/// expires at poll number `k` (0-based) and stays expired; or, with `after_commits = n`, expires as
/// soon as the engine has committed n passes
pub struct CountingTimeout {
    k: u64,
    after_commits: u32,
    polls: Cell<u64>,
    commits_seen: Cell<u32>,
    expired_at: Cell<Option<u64>>,
    watchdog: u64,
}

impl CountingTimeout {
    pub fn at(k: u64) -> Self {
        CountingTimeout { k, after_commits: 0, polls: Cell::new(0), commits_seen: Cell::new(0), expired_at: Cell::new(None), watchdog: 3_000_000 }
    }
    pub fn after_commits(n: u32, cap: u64) -> Self {
        CountingTimeout { k: cap, after_commits: n, polls: Cell::new(0), commits_seen: Cell::new(0), expired_at: Cell::new(None), watchdog: 3_000_000 }
    }
}

impl Timeout for CountingTimeout {
    fn is_complete(&self) -> bool {
        let i = self.polls.get();
        self.polls.set(i + 1);
        let mut expired = self.expired_at.get().is_some() || i >= self.k;
        if !expired && self.after_commits > 0 {
            expired = verif::commits() as u32 >= self.after_commits;
        }
        if expired && self.expired_at.get().is_none() {
            self.expired_at.set(Some(i));
        }
        verif::emit(Event::Poll { expired });
        if let Some(at) = self.expired_at.get() {
            if i > at + self.watchdog {
                std::panic::resume_unwind(Box::new(NonTermination));
            }
        }
        expired
    }
}

pub fn score_json(s: Score) -> Value {
    match s {
        Score::Min => json!({"k": "min", "v": 0}),
        Score::Max => json!({"k": "max", "v": 0}),
        Score::BlackMateIn(n) => json!({"k": "bm", "v": n}),
        Score::WhiteMateIn(n) => json!({"k": "wm", "v": n}),
        Score::Raw(v) => json!({"k": "raw", "v": v}),
    }
}

pub struct Run {
    pub events: Vec<Event>,
    pub result: Option<(Option<chess_movegen::ChessMove>, Score)>,
    pub terminated: bool,
    pub panicked: bool,
    pub polls: u64,
}

/// which limit to give the engine (constructed inside the search thread: it is not Send)
#[derive(Clone, Copy)]
pub enum Limit {
    At(u64),
    AfterCommits(u32, u64),
}

/// wall-clock bound for one search: only used to recognise non-termination (searches in this
/// harness take micro- to milliseconds; a search that does not return within this bound and does
/// not even poll its limit any more is reported as non-terminating)
const SEARCH_DEADLINE_S: u64 = 120;

/// run one search on its own thread; `hist` are the positions of the repetition history
pub fn run_search(board: &Board, hist: &[Board], limit: Limit, positional: bool) -> Run {
    let board = *board;
    let hist: Vec<Board> = hist.to_vec();
    let (tx, rx) = std::sync::mpsc::channel::<Run>();
    let op = cur_op();
    std::thread::Builder::new()
        .stack_size(64 << 20)
        .spawn(move || {
            set_op(&op);
            let mut tf = ThreeFold::new();
            for b in &hist {
                tf.add(*b);
            }
            let timeout = match limit {
                Limit::At(k) => CountingTimeout::at(k),
                Limit::AfterCommits(n, cap) => CountingTimeout::after_commits(n, cap),
            };
            verif::start();
            let mut engine = Engine::default();
            engine.positional = positional;
            let res = std::panic::catch_unwind(std::panic::AssertUnwindSafe(|| engine.search(&board, &tf, &timeout)));
            let events = verif::take();
            let run = match res {
                Ok(r) => Run { events, result: Some(r), terminated: true, panicked: false, polls: timeout.polls.get() },
                Err(p) => {
                    let nonterm = p.downcast_ref::<NonTermination>().is_some();
                    Run { events, result: None, terminated: !nonterm, panicked: !nonterm, polls: timeout.polls.get() }
                }
            };
            let _ = tx.send(run);
        })
        .expect("spawn search thread");
    match rx.recv_timeout(std::time::Duration::from_secs(SEARCH_DEADLINE_S)) {
        Ok(run) => run,
        Err(_) => {
            // the thread is abandoned (it cannot be stopped); the caller ends the recording soon
            HUNG.with(|h| h.set(true));
            Run { events: vec![], result: None, terminated: false, panicked: false, polls: 0 }
        }
    }
}

thread_local! {
    pub static HUNG: Cell<bool> = const { Cell::new(false) };
}

pub fn hung() -> bool {
    HUNG.with(|h| h.get())
}

/// serialise a run: hook events with polls compressed (polls deep in the tree are dropped unless
/// they are the first to report expiry)
pub fn write_run(out: &mut impl Write, board: &Board, same: bool, run: &Run, meta: Value) -> u64 {
    let mut n = 0u64;
    let mut begin = json!({"ev": "s_begin", "same": same, "fen": board.to_string(), "meta": meta});
    if !same {
        begin["pos"] = pos_json(board);
    }
    writeln!(out, "{begin}").unwrap();
    n += 1;
    let ev = &run.events;
    let mut seen_expired = false;
    let mut i = 0;
    while i < ev.len() {
        match ev[i] {
            Event::Poll { .. } => {
                // a maximal block of polls; what follows decides their role
                let mut j = i;
                while j < ev.len() && matches!(ev[j], Event::Poll { .. }) {
                    j += 1;
                }
                let prev_is_root = i > 0 && matches!(ev[i - 1], Event::Root { .. });
                let next_is_root = j < ev.len() && matches!(ev[j], Event::Root { .. });
                for (idx, e) in ev[i..j].iter().enumerate() {
                    let Event::Poll { expired } = *e else { unreachable!() };
                    let post_root = prev_is_root && idx == 0;
                    let bottom = !next_is_root && idx == j - i - 1;
                    let first_expired = expired && !seen_expired;
                    if expired {
                        seen_expired = true;
                    }
                    if post_root || bottom || first_expired {
                        writeln!(out, "{}", json!({"ev": "poll", "expired": expired})).unwrap();
                        n += 1;
                    }
                }
                i = j;
            }
            Event::Pass { depth } => {
                writeln!(out, "{}", json!({"ev": "pass", "depth": depth})).unwrap();
                n += 1;
                i += 1;
            }
            Event::Root { phase, mv, score } => {
                writeln!(out, "{}", json!({"ev": "root", "phase": phase, "mv": code(mv), "score": score_json(score)})).unwrap();
                n += 1;
                i += 1;
            }
            Event::Commit { depth, mv, score } => {
                writeln!(out, "{}", json!({"ev": "commit", "depth": depth, "mv": mv.map_or(-1i64, |m| code(m) as i64), "score": score_json(score)})).unwrap();
                n += 1;
                i += 1;
            }
        }
    }
    let (mv, sc) = match run.result {
        Some((m, s)) => (m.map_or(-1i64, |m| code(m) as i64), score_json(s)),
        None => (-1, json!({"k": "min", "v": 0})),
    };
    writeln!(out, "{}", json!({"ev": "s_end", "mv": mv, "score": sc, "terminated": run.terminated, "panicked": run.panicked, "polls": run.polls})).unwrap();
    n + 1
}

fn commits_of(run: &Run) -> Vec<(Option<chess_movegen::ChessMove>, Score)> {
    run.events.iter().filter_map(|e| if let Event::Commit { mv, score, .. } = e { Some((*mv, *score)) } else { None }).collect()
}

/// positions with histories: roots and positions along seeded walks (the walk is the history)
fn search_positions(roots: &Value, tags: &str, seed: u64, per_root: u64, plies: u64) -> Vec<(Board, Vec<Board>)> {
    let mut v = vec![];
    let mut rng = rng(seed, 31337);
    for r in roots.as_array().unwrap() {
        let hit = tags.is_empty() || r["tags"].as_array().unwrap().iter().any(|x| tags.split(',').any(|s| x == s));
        if !hit {
            continue;
        }
        let Ok(b) = r["fen"].as_str().unwrap().parse::<Board>() else { continue };
        v.push((b, vec![]));
        for _ in 0..per_root {
            let mut cur = b;
            let mut hist = vec![];
            for _ in 0..rng.gen_range(1..=plies) {
                let l = legal_codes(&cur);
                if l.is_empty() {
                    break;
                }
                match cur.move_new(decode(*l.choose(&mut rng).unwrap())) {
                    Some(n) if has_both_kings(&n) => {
                        hist.push(n);
                        cur = n;
                    }
                    _ => break,
                }
            }
            if has_both_kings(&cur) {
                v.push((cur, hist));
            }
        }
    }
    v
}

pub fn record_search(opts: &Opts) -> i32 {
    let roots = read_json_file(&opts.str("roots", &crate::util::default_roots()));
    let seed = opts.num("seed", 1);
    let shard = opts.num("shard", 0);
    let shards = opts.num("shards", 1);
    let budget = opts.num("events", 30000);
    let kmax = opts.num("kmax", 400);
    let mode = opts.str("mode", "allk");
    let commits_target = opts.num("commits", 3) as u32;
    let mut out = std::io::BufWriter::new(std::fs::File::create(opts.str("out", "search.ndjson")).unwrap());
    let mut rng = rng(seed, 5000 + shard);
    let all = search_positions(&roots, &opts.str("tags", ""), seed, opts.num("per-root", 1), opts.num("plies", 12));
    let mine: Vec<&(Board, Vec<Board>)> = all.iter().enumerate().filter(|(i, _)| (*i as u64) % shards == shard).map(|(_, x)| x).collect();
    let mut events = 0u64;
    let mut runs = 0u64;
    let mut positions = 0u64;
    let mut nonterm = 0u64;
    let per_pos = (budget / (mine.len().max(1) as u64)).max(300);
    for (board, hist) in mine {
        if events >= budget || hung() {
            break;
        }
        positions += 1;
        let stop_at = events + per_pos;
        // the repetition history handed to the search: none, the walk that led here, or that walk
        // several times over (a game that went on after positions had occurred three times and more)
        let rep = *[1usize, 1, 2, 3, 4].choose(&mut rng).unwrap();
        let tf: Vec<Board> = if rng.gen_bool(0.5) { hist.iter().cycle().take(hist.len() * rep).copied().collect() } else { vec![] };
        op!("record-search probe board={board} history={}x{rep}", hist.len());
        // how many polls do `commits_target` passes take?
        let cap = opts.num("cap", 200_000);
        let probe = run_search(board, &tf, Limit::AfterCommits(commits_target, cap), false);
        if !probe.terminated {
            // the probe itself does not return: record it (k = "after N commits") and stop recording
            events += write_run(&mut out, board, false, &probe, json!({"k": "probe", "hist": hist.len()}));
            runs += 1;
            nonterm += 1;
            break;
        }
        let total = probe.polls.min(cap);
        let ks: Vec<u64> = if mode == "allk" && total <= kmax && total * 12 <= per_pos * 4 {
            (0..=total + 1).collect()
        } else {
            // seeded sample: the first few, the last few, and random instants in between
            let mut v: Vec<u64> = (0..6.min(total)).collect();
            for _ in 0..opts.num("samples", 20) {
                v.push(rng.gen_range(0..=total));
            }
            v.push(total);
            v.push(total + 1);
            v.sort();
            v.dedup();
            v
        };
        let mut first = true;
        for k in ks {
            op!("record-search board={board} k={k}");
            let run = run_search(board, &tf, Limit::At(k), false);
            if !run.terminated {
                nonterm += 1;
            }
            events += write_run(&mut out, board, !first, &run, json!({"k": k, "hist": hist.len()}));
            if hung() {
                break;
            }
            first = false;
            runs += 1;
            if events >= stop_at {
                break;
            }
        }
    }
    out.flush().unwrap();
    out_line("SUMMARY", &json!({"counts": {"events": events, "runs": runs, "positions": positions, "nonterminating": nonterm},
                                "distinct": positions, "nontrivial": runs, "mismatches": 0, "samples": [], "extra": {}}));
    0
}

/// spec -> impl for C12 / C13: lines <<"SPOS", {fen, mirror, mates}>> generated by TLC; each
/// position is searched until its first pass is committed (C12) and, for pairs, a fixed poll
/// budget is given to the position and its mirror (C13); everything is logged for validation.
pub fn replay_search(opts: &Opts) -> i32 {
    let mut out = std::io::BufWriter::new(std::fs::File::create(opts.str("out", "search.ndjson")).unwrap());
    let polls = opts.num("polls", 3000);
    let do_mirror = opts.flag("mirror");
    let stdin = std::io::stdin();
    let mut events = 0u64;
    let mut lines = 0u64;
    let mut with_mate = 0u64;
    let mut pairs = 0u64;
    let mut depths = 0u64;
    let mut samples = vec![];
    for line in stdin.lock().lines() {
        let Ok(line) = line else { break };
        let Some(rec) = unwrap_tlc_line(&line, "SPOS") else { continue };
        if hung() {
            break;
        }
        lines += 1;
        let fen = rec["fen"].as_str().unwrap_or("");
        let Ok(board) = fen.parse::<Board>() else {
            out_line("MISMATCH", &json!({"prop": "C06", "kind": "canonical-rejected", "case": fen, "exp": "accepted", "got": "rejected"}));
            continue;
        };
        if rec["mates"].as_array().map_or(false, |a| !a.is_empty()) {
            with_mate += 1;
        }
        let tf: Vec<Board> = vec![];
        if !do_mirror {
            op!("replay-search first-pass fen={fen}");
            let run = run_search(&board, &tf, Limit::AfterCommits(1, 500_000), false);
            events += write_run(&mut out, &board, false, &run, json!({"mode": "first-pass"}));
            if samples.len() < 2 && with_mate > 0 && samples.len() < with_mate as usize {
                samples.push(json!({"fen": fen, "mates": rec["mates"], "result": run.result.map(|(m, s)| json!([m.map(code), score_json(s)]))}));
            }
        } else {
            let mfen = rec["mirror"].as_str().unwrap_or("");
            let Ok(mboard) = mfen.parse::<Board>() else { continue };
            op!("replay-search mirror fen={fen}");
            let ra = run_search(&board, &tf, Limit::At(polls), false);
            let rb = run_search(&mboard, &tf, Limit::At(polls), false);
            events += write_run(&mut out, &board, false, &ra, json!({"mode": "mirror-a", "polls": polls}));
            events += write_run(&mut out, &mboard, false, &rb, json!({"mode": "mirror-b", "polls": polls}));
            let ca = commits_of(&ra);
            let cb = commits_of(&rb);
            depths += ca.len().min(cb.len()) as u64;
            pairs += 1;
            writeln!(out, "{}", json!({"ev": "mirror_pair", "fen": fen, "mirror": mfen,
                "a": ca.iter().map(|c| score_json(c.1)).collect::<Vec<_>>(),
                "b": cb.iter().map(|c| score_json(c.1)).collect::<Vec<_>>()})).unwrap();
            events += 1;
            if samples.len() < 2 {
                samples.push(json!({"fen": fen, "mirror": mfen, "a": ca.iter().map(|c| score_json(c.1)).collect::<Vec<_>>(),
                                    "b": cb.iter().map(|c| score_json(c.1)).collect::<Vec<_>>()}));
            }
        }
    }
    out.flush().unwrap();
    out_line("SUMMARY", &json!({"counts": {"events": events, "lines": lines, "with_mate_in_one": with_mate, "pairs": pairs, "common_depths": depths},
                                "distinct": lines, "nontrivial": with_mate + depths, "mismatches": 0, "samples": samples, "extra": {}}));
    0
}

// ------------------------------------------------------------------------------------------------
// C14: the comparison operators of Score on a grid (validated by spec/ScoreTrace.tla)
// ------------------------------------------------------------------------------------------------

pub fn record_score(opts: &Opts) -> i32 {
    let seed = opts.num("seed", 1);
    let extra = opts.num("random", 64);
    let mut rng = rng(seed, 1414);
    let mut grid: Vec<Score> = vec![Score::Min, Score::Max];
    let mut mates: Vec<u16> = vec![0, 1, 2, 3, 100, 65534, 65535];
    let mut raws: Vec<i32> = vec![i32::MIN, i32::MIN + 1, -1000, -1, 0, 1, 1000, i32::MAX - 1, i32::MAX];
    for _ in 0..extra {
        mates.push(rng.gen());
        raws.push(rng.gen());
    }
    for &m in &mates {
        grid.push(Score::BlackMateIn(m));
        grid.push(Score::WhiteMateIn(m));
    }
    for &r in &raws {
        grid.push(Score::Raw(r));
    }
    let mut out = std::io::BufWriter::new(std::fs::File::create(opts.str("out", "score.ndjson")).unwrap());
    let ord = |o: std::cmp::Ordering| match o {
        std::cmp::Ordering::Less => -1,
        std::cmp::Ordering::Equal => 0,
        std::cmp::Ordering::Greater => 1,
    };
    let mut pairs = 0u64;
    for &a in &grid {
        let rows: Vec<Value> = grid.iter().map(|&b| {
            pairs += 1;
            json!({"b": score_json(b), "cmp": ord(a.cmp(&b)), "pcmp": a.partial_cmp(&b).map_or(-9, ord), "eq": a == b,
                   "lt": a < b, "le": a <= b, "gt": a > b, "ge": a >= b,
                   "max": score_json(a.max(b)), "min": score_json(a.min(b))})
        }).collect();
        writeln!(out, "{}", json!({"ev": "cmp_block", "a": score_json(a), "rows": rows})).unwrap();
    }
    out.flush().unwrap();
    out_line("SUMMARY", &json!({"counts": {"scores": grid.len(), "pairs": pairs}, "distinct": pairs, "nontrivial": pairs, "mismatches": 0, "samples": [], "extra": {}}));
    0
}

/// searches that are given enough polls for very many deepening passes on O(1) trees (C07)
pub fn stress_search(opts: &Opts) -> i32 {
    let roots = read_json_file(&opts.str("roots", &crate::util::default_roots()));
    let tags = opts.str("tags", "tiny");
    let polls = opts.num("polls", 70000);
    let mut out = std::io::BufWriter::new(std::fs::File::create(opts.str("out", "stress.ndjson")).unwrap());
    let mut runs = 0u64;
    let mut passes = 0u64;
    for r in roots.as_array().unwrap() {
        if !r["tags"].as_array().unwrap().iter().any(|x| tags.split(',').any(|s| x == s)) {
            continue;
        }
        let fen = r["fen"].as_str().unwrap();
        let Ok(board) = fen.parse::<Board>() else { continue };
        if hung() {
            break;
        }
        op!("stress-search {fen} polls={polls}");
        let run = run_search(&board, &[], Limit::At(polls), false);
        let n = run.events.iter().filter(|e| matches!(e, Event::Commit { .. })).count() as u64;
        passes += n;
        runs += 1;
        writeln!(out, "{}", json!({"fen": fen, "passes": n, "terminated": run.terminated, "panicked": run.panicked})).unwrap();
        if run.panicked {
            // the panic hook has already printed the PANIC line with the operation
        }
    }
    out.flush().unwrap();
    out_line("SUMMARY", &json!({"counts": {"runs": runs, "passes": passes}, "distinct": runs, "nontrivial": runs, "mismatches": 0, "samples": [], "extra": {}}));
    0
}

/// Extremal counters (C07): positions whose half-move and full-move counters are at the top of
/// their 16-bit range can only be set up through the builder (the FEN grammar stops at four digits)
/// or be reached by very long play; every safe operation on them - the three move operations,
/// status, text, hash, generation, and a search, which applies moves itself - must neither trap nor
/// wrap.  Likewise a search on top of a repetition history in which positions of the tree have been
/// seen more often than an 8-bit counter can hold.
pub fn stress_clocks(opts: &Opts) -> i32 {
    let roots = read_json_file(&opts.str("roots", &crate::util::default_roots()));
    let tags = opts.str("tags", "tiny,std,clock,promo");
    let seed = opts.num("seed", 1);
    let mut rng = rng(seed, 1900);
    let mut calls = 0u64;
    let mut runs = 0u64;
    for r in roots.as_array().unwrap() {
        if !r["tags"].as_array().unwrap().iter().any(|x| tags.split(',').any(|s| x == s)) {
            continue;
        }
        let mut pos = r["pos"].clone();
        for (hm, fm) in [(65535u64, 65535u64), (65534, 65535), (65535, 1), (99, 65535), (65534, 65534), (100, 9999)] {
            pos["hm"] = json!(hm);
            pos["fm"] = json!(fm);
            op!("stress-clocks build {} hm={hm} fm={fm}", r["fen"]);
            let Some(Ok(board)) = guarded(|| build_from_pos(&pos)) else { continue };
            runs += 1;
            let mut cur = board;
            for ply in 0..6 {
                op!("stress-clocks ply {ply} from {} hm={hm} fm={fm}", r["fen"]);
                let ok = guarded(|| {
                    let legals = legal_codes(&cur);
                    let _ = cur.state();
                    let _ = cur.to_string();
                    let _ = format!("{cur:?}");
                    let _ = cur.zobrist();
                    let Some(&c) = legals.choose(&mut rng) else { return None };
                    let mv = decode(c);
                    let a = cur.move_new(mv)?;
                    let mut b = cur;
                    let _ = b.move_mut(mv);
                    let mut into = cur;
                    let _ = cur.move_into(mv, &mut into);
                    // every legal move once, so that captures, pawn moves and castling are all applied
                    for &c2 in &legals {
                        let _ = cur.move_new(decode(c2));
                    }
                    Some(a)
                });
                calls += 1;
                match ok {
                    Some(Some(n)) => cur = n,
                    _ => break,
                }
            }
            if hung() {
                break;
            }
            op!("stress-clocks search {} hm={hm} fm={fm}", r["fen"]);
            let _ = run_search(&board, &[], Limit::At(400), false);
            calls += 1;
        }
        // a search on top of a history that holds the root's neighbourhood 300 times
        if let Ok(board) = r["fen"].as_str().unwrap().parse::<Board>() {
            let mut hist = vec![];
            for c in legal_codes(&board).into_iter().take(4) {
                if let Some(n) = board.move_new(decode(c)) {
                    for _ in 0..300 {
                        hist.push(n);
                    }
                }
            }
            for _ in 0..300 {
                hist.push(board);
            }
            if !hung() {
                op!("stress-clocks search on a 300-fold history {}", r["fen"]);
                let _ = run_search(&board, &hist, Limit::At(600), false);
                calls += 1;
            }
        }
    }
    out_line("SUMMARY", &json!({"counts": {"runs": runs, "calls": calls}, "distinct": runs, "nontrivial": runs, "mismatches": 0, "samples": [], "extra": {}}));
    0
}
