//! Lookup-table scenarios (C08, C09): replay the tables TLC computed from the geometric
//! definitions against chess-lookup's accessors and chess-lookup-generator's functions, and the
//! ray-subset cases against the magic slider lookups.

use crate::chessplay::unwrap_tlc_line;
use crate::proj::*;
use crate::util::*;
use chess_bitboard::{BitBoard, Color, File, Rank};
use chess_lookup_generator as gen;
use rand::Rng;
use serde_json::{json, Value};
use std::io::BufRead;

fn bb_from(v: &Value) -> BitBoard {
    let mut x = 0u64;
    if let Some(a) = v.as_array() {
        for s in a {
            x |= 1u64 << s.as_u64().unwrap();
        }
    }
    BitBoard::from_u64(x)
}

fn members(bb: BitBoard) -> Vec<u8> {
    (0..64u8).filter(|i| bb.to_u64() >> i & 1 == 1).collect()
}

struct Cmp {
    entries: u64,
    mism: u64,
}

impl Cmp {
    fn eq(&mut self, what: &str, key: Value, exp: &Value, got: BitBoard) {
        self.entries += 1;
        if bb_from(exp) != got {
            self.mism += 1;
            out_line("MISMATCH", &json!({"prop": "C09", "kind": what, "case": key, "exp": exp, "got": members(got)}));
        }
    }
    fn eqv(&mut self, what: &str, key: Value, exp: &Value, got: Value) {
        self.entries += 1;
        if *exp != got {
            self.mism += 1;
            out_line("MISMATCH", &json!({"prop": "C09", "kind": what, "case": key, "exp": exp, "got": got}));
        }
    }
}

pub fn replay_geo(_opts: &Opts) -> i32 {
    let stdin = std::io::stdin();
    let mut c = Cmp { entries: 0, mism: 0 };
    let mut lines = 0u64;
    let gen_between = gen::between();
    let gen_line = gen::line();
    let mut samples = vec![];
    for line in stdin.lock().lines() {
        let Ok(line) = line else { break };
        let Some(r) = unwrap_tlc_line(&line, "GEO") else { continue };
        lines += 1;
        match r["t"].as_str().unwrap_or("") {
            "sq" => {
                let s = r["s"].as_u64().unwrap() as u8;
                let p = sq(s);
                op!("replay-geo sq {s}");
                let k = json!({"sq": s});
                c.eq("knight_moves", k.clone(), &r["knight"], chess_lookup::knight_moves(p));
                c.eq("king_moves", k.clone(), &r["king"], chess_lookup::king_moves(p));
                c.eq("pawn_attacks_moves white", k.clone(), &r["watk"], chess_lookup::pawn_attacks_moves(p, Color::White));
                c.eq("pawn_attacks_moves black", k.clone(), &r["batk"], chess_lookup::pawn_attacks_moves(p, Color::Black));
                // pushes on an empty board
                c.eq("pawn_quiets white (empty board)", k.clone(), &r["wpush"], chess_lookup::pawn_quiets(p, Color::White, BitBoard::empty()));
                c.eq("pawn_quiets black (empty board)", k.clone(), &r["bpush"], chess_lookup::pawn_quiets(p, Color::Black, BitBoard::empty()));
                c.eq("rook_rays", k.clone(), &r["rook"], chess_lookup::rook_rays(p));
                c.eq("bishop_rays", k.clone(), &r["bishop"], chess_lookup::bishop_rays(p));
                // the generator's definitions
                c.eq("generator knight_moves", k.clone(), &r["knight"], gen::knight_moves(p));
                c.eq("generator king_moves", k.clone(), &r["king"], gen::king_moves(p));
                c.eq("generator pawn_attacks white", k.clone(), &r["watk"], gen::pawn_attacks(p)[0]);
                c.eq("generator pawn_attacks black", k.clone(), &r["batk"], gen::pawn_attacks(p)[1]);
                c.eq("generator pawn_quiets white", k.clone(), &r["wpush"], gen::pawn_quiets(p)[0]);
                c.eq("generator pawn_quiets black", k.clone(), &r["bpush"], gen::pawn_quiets(p)[1]);
                c.eq("generator rook_rays", k.clone(), &r["rook"], gen::rook_rays(p));
                c.eq("generator bishop_rays", k.clone(), &r["bishop"], gen::bishop_rays(p));
                if samples.len() < 1 {
                    samples.push(json!({"t": "sq", "s": s, "knight": r["knight"], "bishop": r["bishop"]}));
                }
            }
            "pair" => {
                let a = r["a"].as_u64().unwrap() as u8;
                op!("replay-geo pair {a}");
                for b in 0..64u8 {
                    let k = json!({"a": a, "b": b});
                    c.eq("between", k.clone(), &r["between"][b as usize], chess_lookup::between(sq(a), sq(b)));
                    c.eq("line", k.clone(), &r["line"][b as usize], chess_lookup::line(sq(a), sq(b)));
                    c.eqv("distance", k.clone(), &r["dist"][b as usize], json!(chess_lookup::distance(sq(a), sq(b))));
                    c.eq("generator between", k.clone(), &r["between"][b as usize], gen_between[a as usize * 64 + b as usize]);
                    c.eq("generator line", k.clone(), &r["line"][b as usize], gen_line[a as usize * 64 + b as usize]);
                }
            }
            "pawn" => {
                let s = r["s"].as_u64().unwrap() as u8;
                let col = if r["c"] == "w" { Color::White } else { Color::Black };
                op!("replay-geo pawn {s}");
                // the relevant squares are those that occur in some enumerated occupancy
                let mut rel = 0u64;
                for case in r["cases"].as_array().unwrap() {
                    rel |= bb_from(&case["occ"]).to_u64();
                }
                for case in r["cases"].as_array().unwrap() {
                    let occ = bb_from(&case["occ"]);
                    let k = json!({"sq": s, "color": r["c"], "occ": case["occ"]});
                    c.eq("pawn_quiets", k.clone(), &case["quiets"], chess_lookup::pawn_quiets(sq(s), col, occ));
                    c.eq("pawn_attacks", k.clone(), &case["attacks"], chess_lookup::pawn_attacks(sq(s), col, occ));
                    c.eq("pawn_moves", k.clone(), &case["moves"], chess_lookup::pawn_moves(sq(s), col, occ));
                    // squares that are not relevant must not matter: occupy all of them
                    let noisy = BitBoard::from_u64(occ.to_u64() | (!rel & !(1u64 << s)));
                    c.eq("pawn_quiets (noise)", k.clone(), &case["quiets"], chess_lookup::pawn_quiets(sq(s), col, noisy));
                    let atk_noisy = chess_lookup::pawn_attacks(sq(s), col, noisy);
                    c.eq("pawn_attacks (noise)", k.clone(), &case["attacks"], atk_noisy);
                }
            }
            "const" => {
                op!("replay-geo const");
                let k = json!("const");
                for i in 0..8usize {
                    c.eq("ADJACENT_FILES", json!(i), &r["adjacent_files"][i], chess_lookup::ADJACENT_FILES[i]);
                    c.eq("ADJACENT_RANKS", json!(i), &r["adjacent_ranks"][i], chess_lookup::ADJACENT_RANKS[i]);
                    c.eqv("CASTLE_ROOK_START", json!(i), &r["castle_rook_start"][i], json!(chess_lookup::CASTLE_ROOK_START[i].to_u8()));
                    c.eqv("CASTLE_ROOK_END", json!(i), &r["castle_rook_end"][i], json!(chess_lookup::CASTLE_ROOK_END[i].to_u8()));
                }
                c.eq("PAWN_DOUBLE_SOURCE", k.clone(), &r["pawn_double_source"], chess_lookup::PAWN_DOUBLE_SOURCE);
                c.eq("PAWN_DOUBLE_DEST", k.clone(), &r["pawn_double_dest"], chess_lookup::PAWN_DOUBLE_DEST);
                c.eq("CASTLE_MOVES", k.clone(), &r["castle_moves"], chess_lookup::CASTLE_MOVES);
                c.eq("ROOK_CASTLE_QUEENSIDE", k.clone(), &r["rook_castle_queenside"], chess_lookup::ROOK_CASTLE_QUEENSIDE);
                c.eq("ROOK_CASTLE_KINGSIDE", k.clone(), &r["rook_castle_kingside"], chess_lookup::ROOK_CASTLE_KINGSIDE);
                c.eq("KINGSIDE_CASTLE_FILES", k.clone(), &r["kingside_castle_files"], chess_lookup::KINGSIDE_CASTLE_FILES);
                c.eq("QUEENSIDE_CASTLE_FILES", k.clone(), &r["queenside_castle_files"], chess_lookup::QUEENSIDE_CASTLE_FILES);
                c.eq("KINGSIDE_CASTLE_SAFE_FILES", k.clone(), &r["kingside_safe_files"], chess_lookup::KINGSIDE_CASTLE_SAFE_FILES);
                c.eq("QUEENSIDE_CASTLE_SAFE_FILES", k.clone(), &r["queenside_safe_files"], chess_lookup::QUEENSIDE_CASTLE_SAFE_FILES);
                for (i, col) in [Color::White, Color::Black].into_iter().enumerate() {
                    c.eqv("BACKRANK", json!(i), &r["backrank"][i], json!(chess_lookup::BACKRANK[col].to_u8()));
                    c.eq("BACKRANK_BB", json!(i), &r["backrank_bb"][i], chess_lookup::BACKRANK_BB[col]);
                    c.eq("PAWN_DOUBLE_MOVE", json!(i), &r["pawn_double_move"][i], chess_lookup::PAWN_DOUBLE_MOVE[col]);
                    c.eqv("PROMOTION_RANK", json!(i), &r["promotion_rank"][i], json!(chess_lookup::PROMOTION_RANK[col].to_u8()));
                    c.eqv("PAWN_DOUBLE_MOVE_SOURCE_RANK", json!(i), &r["double_source_rank"][i], json!(chess_lookup::PAWN_DOUBLE_MOVE_SOURCE_RANK[col].to_u8()));
                    c.eqv("PAWN_DOUBLE_MOVE_DEST_RANK", json!(i), &r["double_dest_rank"][i], json!(chess_lookup::PAWN_DOUBLE_MOVE_DEST_RANK[col].to_u8()));
                    c.eqv("enpassant_capture_rank", json!(i), &r["ep_capture_rank"][i], json!(col.enpassant_capture_rank().to_u8()));
                    c.eqv("enpassant_pawn_rank", json!(i), &r["ep_pawn_rank"][i], json!(col.enpassant_pawn_rank().to_u8()));
                }
                // File::side as used by castling
                for f in File::all() {
                    let want = if f.to_u8() < 4 { 1 } else { 0 };
                    c.eqv("File::side", json!(f.to_u8()), &json!(want), json!(f.side() as u8));
                }
                let _ = Rank::all();
            }
            _ => {}
        }
    }
    out_line("SUMMARY", &json!({"counts": {"lines": lines, "entries": c.entries}, "distinct": c.entries, "nontrivial": c.entries,
                                "mismatches": c.mism, "samples": samples, "extra": {}}));
    0
}

// ------------------------------------------------------------------------------------------------
// C08: slider lookups against ray casting, for every subset TLC enumerated
// ------------------------------------------------------------------------------------------------

pub fn replay_sliders(opts: &Opts) -> i32 {
    let seed = opts.num("seed", 1);
    let mut rng = rng(seed, 4242);
    let stdin = std::io::stdin();
    let mut lines = 0u64;
    let mut lookups = 0u64;
    let mut mism = 0u64;
    let mut samples = vec![];
    // the squares a slider on s can ever see (its own rays), from the generator-independent tables
    for line in stdin.lock().lines() {
        let Ok(line) = line else { break };
        let Some(r) = unwrap_tlc_line(&line, "SL") else { continue };
        lines += 1;
        let s = r["s"].as_u64().unwrap() as u8;
        let rook = r["k"] == "R";
        let occ = bb_from(&r["o"]);
        let want = bb_from(&r["a"]);
        op!("replay-sliders s={s} rook={rook} occ={:#x}", occ.to_u64());
        let rays = if rook { chess_lookup::rook_rays(sq(s)) } else { chess_lookup::bishop_rays(sq(s)) };
        let look = |o: BitBoard| if rook { chess_lookup::rook_moves(sq(s), o) } else { chess_lookup::bishop_moves(sq(s), o) };
        // the case itself, the same with the slider's own square occupied, with every off-ray
        // square occupied, and with seeded off-ray noise: the answer may not change
        let own = BitBoard::from_u64(1u64 << s);
        let off = BitBoard::from_u64(!(rays.to_u64()) & !(1u64 << s));
        let noise = BitBoard::from_u64(rng.gen::<u64>() & off.to_u64());
        for (tag, o) in [("plain", occ), ("own-square", occ | own), ("off-ray-full", occ | off | own), ("off-ray-noise", occ | noise)] {
            lookups += 1;
            let got = look(o);
            if got != want {
                mism += 1;
                out_line("MISMATCH", &json!({"prop": "C08", "kind": if rook { "rook_moves" } else { "bishop_moves" },
                    "case": {"sq": s, "occ": r["o"], "variant": tag}, "exp": r["a"], "got": members(got)}));
                break;
            }
        }
        if samples.len() < 2 && r["o"].as_array().map_or(0, |a| a.len()) == 3 {
            samples.push(json!({"sq": s, "kind": r["k"], "occ": r["o"], "attack": r["a"]}));
        }
    }
    out_line("SUMMARY", &json!({"counts": {"lines": lines, "lookups": lookups}, "distinct": lines, "nontrivial": lines,
                                "mismatches": mism, "samples": samples, "extra": {}}));
    0
}
