//! Opening-book scenario (C17): export the trie through the public iterator (dense node numbers)
//! and walk it with the real move generator, recording the position text at every node.

use crate::util::*;
use chess_lookup::{BookMoves, INITIAL_BOOOK_MOVES};
use chess_movegen::{Board, ChessMove};
use serde_json::{json, Value};
use std::collections::{HashMap, VecDeque};

pub fn book_export(opts: &Opts) -> i32 {
    let mut ids: HashMap<String, usize> = HashMap::new();
    let mut nodes: Vec<Vec<(u8, u8, usize)>> = vec![];
    let mut queue: VecDeque<(BookMoves, usize, Board, usize)> = VecDeque::new();
    let mut walk: Vec<Value> = vec![];
    let key = |b: BookMoves| format!("{b:?}");
    ids.insert(key(INITIAL_BOOOK_MOVES), 1);
    nodes.push(vec![]);
    let mut index_of: Vec<usize> = vec![chess_lookup::verif::book_index(INITIAL_BOOOK_MOVES)];
    queue.push_back((INITIAL_BOOOK_MOVES, 1, Board::standard(), 0));
    walk.push(json!({"node": 1, "depth": 0, "fen": Board::standard().to_string()}));
    let mut edges = 0u64;
    let mut refused = 0u64;
    let mut iter_bad = 0u64;
    while let Some((bm, id, board, depth)) = queue.pop_front() {
        op!("book-export node {id} ({})", key(bm));
        // the iterator of a node must stay inside the node's own list however it is driven: nth for every
        // index up to two past the end, every-other stepping, count and last against the plain iteration
        {
            let plain: Vec<(u8, u8, String)> = bm.into_iter().map(|m| (m.source.to_u8(), m.dest.to_u8(), key(m.children))).collect();
            let item = |m: Option<chess_lookup::BookMove>| m.map(|m| (m.source.to_u8(), m.dest.to_u8(), key(m.children)));
            let mut bad: Option<String> = None;
            for k in 0..plain.len() + 3 {
                if item(bm.into_iter().nth(k)) != plain.get(k).cloned() {
                    bad = Some(format!("nth({k})"));
                }
            }
            let stepped: Vec<(u8, u8, String)> = bm.into_iter().step_by(2).map(|m| (m.source.to_u8(), m.dest.to_u8(), key(m.children))).collect();
            if stepped != plain.iter().step_by(2).cloned().collect::<Vec<_>>() {
                bad = Some("step_by(2)".into());
            }
            if bm.into_iter().count() != plain.len() || item(bm.into_iter().last()) != plain.last().cloned() {
                bad = Some("count/last".into());
            }
            if let Some(what) = bad {
                iter_bad += 1;
                if iter_bad <= 5 {
                    out_line("MISMATCH", &json!({"prop": "C17", "kind": "book-iterator-leaves-its-list", "case": format!("node {id} {what}"),
                                                 "exp": format!("{} moves", plain.len()), "got": what}));
                }
            }
        }
        let mut out = vec![];
        for mv in bm {
            edges += 1;
            let ck = key(mv.children);
            let fresh = !ids.contains_key(&ck);
            let cid = *ids.entry(ck).or_insert_with(|| {
                index_of.push(chess_lookup::verif::book_index(mv.children));
                nodes.push(vec![]);
                nodes.len()
            });
            out.push((mv.source.to_u8(), mv.dest.to_u8(), cid));
            let m = ChessMove { source: mv.source, dest: mv.dest, piece: None };
            match board.move_new(m) {
                Some(next) => {
                    walk.push(json!({"node": cid, "depth": depth + 1, "fen": next.to_string()}));
                    if fresh {
                        queue.push_back((mv.children, cid, next, depth + 1));
                    }
                }
                None => {
                    refused += 1;
                    walk.push(json!({"node": cid, "depth": depth + 1, "fen": "REFUSED", "from_node": id, "mv": [mv.source.to_u8(), mv.dest.to_u8()]}));
                }
            }
            if edges > 5_000_000 {
                eprintln!("book walk does not terminate");
                return 2;
            }
        }
        nodes[id - 1] = out;
    }
    // the other node the public API hands out: the empty book (not reachable from the root); it has no moves, and
    // driving its iterator must stay inside the table like any other
    {
        op!("book-export EMPTY_BOOK_MOVES");
        let e = chess_lookup::EMPTY_BOOK_MOVES;
        let n = e.into_iter().count();
        let beyond = e.into_iter().nth(1).is_some() || e.into_iter().last().is_some() || e.into_iter().step_by(2).count() != 0;
        if n != 0 || beyond {
            out_line("MISMATCH", &json!({"prop": "C17", "kind": "empty-book-is-not-empty", "case": "EMPTY_BOOK_MOVES", "exp": 0, "got": n}));
        }
    }
    let nodes_json: Vec<Value> = nodes.iter().map(|n| json!(n.iter().map(|e| json!([e.0, e.1, e.2])).collect::<Vec<_>>())).collect();
    // layer S (spec/BookSys.tla): the raw table and, per dense node number, the table index the node's iterator starts at
    let raw: Vec<u16> = chess_lookup::verif::book_table().to_vec();
    std::fs::write(opts.str("raw", "bookraw.json"), json!({"table": raw, "root": chess_lookup::verif::book_index(INITIAL_BOOOK_MOVES),
        "empty": chess_lookup::verif::book_index(chess_lookup::EMPTY_BOOK_MOVES), "index": index_of}).to_string()).unwrap();
    std::fs::write(opts.str("out", "book.json"), json!({"nodes": nodes_json, "depth": 64}).to_string()).unwrap();
    std::fs::write(opts.str("walk", "bookwalk.json"), json!(walk).to_string()).unwrap();
    out_line("SUMMARY", &json!({"counts": {"nodes": nodes.len(), "edges": edges, "refused": refused, "cells": chess_lookup::verif::book_table().len()}, "distinct": nodes.len(),
                                "nontrivial": edges, "mismatches": 0, "samples": [], "extra": {}}));
    0
}
