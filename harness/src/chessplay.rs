//! Board-level scenarios (C01-C07): key export, replay of TLC-generated positions, recorded walks.

use crate::proj::*;
use crate::util::*;
use chess_bitboard::{Color, File, Piece};
use chess_movegen::Board;
use rand::seq::SliceRandom;
use rand::Rng;
use serde_json::{json, Value};
use std::collections::{BTreeMap, HashSet};
use std::io::{BufRead, Write};

// ------------------------------------------------------------------------------------------------
// key table export (C04): read through the public accessors of chess-lookup
// ------------------------------------------------------------------------------------------------

pub fn export_keys(opts: &Opts) -> i32 {
    let mut piece = serde_json::Map::new();
    for c in Color::all() {
        for p in Piece::all() {
            let v: Vec<[u32; 4]> = (0..64u8)
                .map(|i| limbs(chess_lookup::zobrist(sq(i), p, c)))
                .collect();
            piece.insert(PIECE_CH[c as usize][p as usize].to_string(), json!(v));
        }
    }
    let ep: Vec<[u32; 4]> = File::all()
        .map(|f| limbs(chess_lookup::en_passant_zobrist(f)))
        .collect();
    let cr: Vec<[u32; 4]> = (0..16usize)
        .map(|i| limbs(chess_lookup::castle_rights_zobrist(i)))
        .collect();
    let keys = json!({
        "piece": piece,
        "turn": {"w": limbs(chess_lookup::turn_zobrist(Color::White)), "b": limbs(chess_lookup::turn_zobrist(Color::Black))},
        "ep": ep,
        "cr": cr,
    });
    let path = opts.str("out", "keys.json");
    std::fs::write(&path, keys.to_string()).expect("write keys");
    0
}

// ------------------------------------------------------------------------------------------------
// helpers
// ------------------------------------------------------------------------------------------------

/// strip TLC's `<<"TAG", "...json string literal...">>` wrapper
pub fn unwrap_tlc_line(line: &str, tag: &str) -> Option<Value> {
    let prefix = format!("<<\"{tag}\", ");
    let rest = line.strip_prefix(&prefix)?;
    let lit = rest.strip_suffix(">>")?;
    let s: String = serde_json::from_str(lit).ok()?;
    serde_json::from_str(&s).ok()
}

fn sorted(mut v: Vec<u32>) -> Vec<u32> {
    v.sort();
    v
}

fn codes_of(v: &Value) -> Vec<u32> {
    v.as_array()
        .map(|a| a.iter().map(|x| x.as_u64().unwrap_or(0) as u32).collect())
        .unwrap_or_default()
}

/// apply a move through one of the three checked operations; None = refused
fn checked_move(board: &Board, mv: chess_movegen::ChessMove, which: u32) -> Option<Board> {
    match which % 3 {
        0 => board.move_new(mv),
        1 => {
            let mut b = *board;
            if b.move_mut(mv) {
                Some(b)
            } else {
                None
            }
        }
        _ => {
            let mut out = Board::standard();
            if board.move_into(mv, &mut out) {
                Some(out)
            } else {
                None
            }
        }
    }
}

/// bitwise identity of two boards as far as any accessor can see
fn same_board(a: &Board, b: &Board) -> bool {
    a == b
        && pos_json(a) == pos_json(b)
        && a.zobrist() == b.zobrist()
        && a.verif_piece_hash() == b.verif_piece_hash()
        && a.verif_checkers() == b.verif_checkers()
        && a.verif_pinned() == b.verif_pinned()
}

/// accepted sets of the four legality-deciding operations over all 20480 triples, and the number
/// of refusals that changed the receiver or the output board
fn probe_all(board: &Board) -> Value {
    let mut isl = vec![];
    let mut acc = [vec![], vec![], vec![]];
    let mut touched = 0u32;
    for c in all_codes() {
        let mv = decode(c);
        if board.is_legal(mv) {
            isl.push(c);
        }
        // move_new
        if board.move_new(mv).is_some() {
            acc[0].push(c);
        }
        // move_mut
        let mut b = *board;
        if b.move_mut(mv) {
            acc[1].push(c);
        } else if !same_board(&b, board) {
            touched += 1;
        }
        // move_into: the output must stay what it was when the move is refused
        let sentinel = Board::standard();
        let mut out = sentinel;
        if board.move_into(mv, &mut out) {
            acc[2].push(c);
        } else if !same_board(&out, &sentinel) {
            touched += 1;
        }
    }
    json!({"isl": isl, "acc_new": acc[0], "acc_mut": acc[1], "acc_into": acc[2], "touched": touched})
}

struct Tally {
    counts: BTreeMap<String, u64>,
    distinct: HashSet<String>,
    nontrivial: HashSet<String>,
    mismatches: u64,
    samples: Vec<Value>,
}

impl Tally {
    fn new() -> Self {
        Tally {
            counts: BTreeMap::new(),
            distinct: HashSet::new(),
            nontrivial: HashSet::new(),
            mismatches: 0,
            samples: vec![],
        }
    }
    fn inc(&mut self, k: &str) {
        *self.counts.entry(k.to_string()).or_insert(0) += 1;
    }
    fn add(&mut self, k: &str, n: u64) {
        *self.counts.entry(k.to_string()).or_insert(0) += n;
    }
    fn mismatch(&mut self, prop: &str, kind: &str, case: &Value, exp: Value, got: Value) {
        self.mismatches += 1;
        self.inc(&format!("mismatch_{prop}"));
        out_line(
            "MISMATCH",
            &json!({"prop": prop, "kind": kind, "case": case, "exp": exp, "got": got}),
        );
    }
    fn summary(&self, extra: Value) {
        out_line(
            "SUMMARY",
            &json!({"counts": self.counts, "distinct": self.distinct.len(), "nontrivial": self.nontrivial.len(),
                    "mismatches": self.mismatches, "samples": self.samples, "extra": extra}),
        );
    }
}

/// what makes a position non-trivial for C01-C03: its legal set contains an en-passant capture,
/// a castling move or a promotion, or the side to move is in check
fn classify_pos(board: &Board, legals: &[u32]) -> Vec<&'static str> {
    let mut tags = vec![];
    let raw = board.raw();
    let mut ep = false;
    let mut castle = false;
    let mut promo = false;
    for &c in legals {
        let m = decode(c);
        if c % 5 != 0 {
            promo = true;
        }
        if let Some((_, Piece::King)) = raw.get(m.source) {
            let d = (m.source.to_u8() as i32 - m.dest.to_u8() as i32).abs();
            if d == 2 {
                castle = true;
            }
        }
        if let Some((_, Piece::Pawn)) = raw.get(m.source) {
            if m.source.to_u8() % 8 != m.dest.to_u8() % 8 && raw.get(m.dest).is_none() {
                ep = true;
            }
        }
    }
    if ep {
        tags.push("ep");
    }
    if castle {
        tags.push("castle");
    }
    if promo {
        tags.push("promo");
    }
    if board.in_check() {
        tags.push("check");
    }
    tags
}

// ------------------------------------------------------------------------------------------------
// spec -> impl: replay positions generated by TLC (ChessMC.tla / families)
// ------------------------------------------------------------------------------------------------

fn compare_obs(t: &mut Tally, case: &Value, board: &Board, exp: &Value, moved: bool, probe: bool) {
    let obs = obs_json(board, true);
    // C02 / C05: the projected position
    if obs["pos"] != exp["pos"] {
        t.mismatch(if moved { "C02" } else { "C05" }, "position", case, exp["pos"].clone(), obs["pos"].clone());
    }
    if obs["raw_ok"] != json!(true) {
        t.mismatch("C02", "raw-inconsistent", case, json!(true), obs["raw_ok"].clone());
    }
    // C01: each legal move exactly once
    let got = codes_of(&obs["legals"]);
    let want = codes_of(&exp["legals"]);
    if sorted(got.clone()) != want {
        t.mismatch("C01", "legals", case, exp["legals"].clone(), json!(sorted(got.clone())));
    }
    if obs["len"].as_u64() != Some(want.len() as u64) || obs["empty"].as_bool() != Some(want.is_empty()) {
        t.mismatch("C10", "fresh-len", case, json!(want.len()), json!([obs["len"], obs["empty"]]));
    }
    // C03
    for k in ["chk", "st", "cks"] {
        if obs[k] != exp[k] {
            t.mismatch("C03", k, case, exp[k].clone(), obs[k].clone());
        }
    }
    // C04
    if obs["zob"] != exp["zob"] {
        t.mismatch("C04", "zobrist", case, exp["zob"].clone(), obs["zob"].clone());
    }
    // C05: writer
    if obs["fen"] != exp["fen"] {
        t.mismatch("C05", "write", case, exp["fen"].clone(), obs["fen"].clone());
    }
    // twin: the same position rebuilt from the implementation's own text
    // (C05 quantifies over clock values 0..9999: the text form has four digits)
    let in_text_range = board.half_move_clock() <= 9999 && board.full_move_clock() <= 9999;
    let tw = &obs["twin"];
    if !in_text_range {
        t.inc("beyond_text_range");
    } else if tw["ok"] != json!(true) {
        t.mismatch("C05", "reparse-own-text", case, json!("ok"), tw.clone());
    } else {
        if tw["eq"] != json!(true) || tw["pos_eq"] != json!(true) {
            t.mismatch("C05", "twin-equal", case, json!(true), json!([tw["eq"], tw["pos_eq"]]));
        }
        if tw["probe"] != json!(true) {
            t.mismatch("C04", "twin-hashmap-probe", case, json!(true), tw["probe"].clone());
        }
        if tw["zob"] != obs["zob"] || tw["phash"] != obs["phash"] {
            t.mismatch("C04", "twin-hash", case, obs["zob"].clone(), tw["zob"].clone());
        }
        for k in ["legals", "chk", "st", "cks", "pins", "fen"] {
            let same = if k == "legals" {
                sorted(codes_of(&tw[k])) == sorted(codes_of(&obs[k]))
            } else {
                tw[k] == obs[k]
            };
            if !same {
                t.mismatch("C03", &format!("twin-{k}"), case, obs[k].clone(), tw[k].clone());
            }
        }
        if tw["dbg_eq"] != json!(true) || tw["dbga_eq"] != json!(true) {
            t.mismatch("C03", "twin-debug", case, json!(true), json!([tw["dbg_eq"], tw["dbga_eq"]]));
        }
        // the pin/shield cache has no rule-level meaning; disagreement with the model of it is drift
        if obs["pins"] != exp["pins"] && tw["pins"] == obs["pins"] {
            t.inc("drift_pins");
            if t.counts["drift_pins"] <= 3 {
                out_line("DRIFT", &json!({"kind": "pins", "case": case, "exp": exp["pins"], "got": obs["pins"]}));
            }
        }
    }
    // C05: the specification's text parses to this very board and is written back byte for byte
    let text = exp["fen"].as_str().unwrap_or("");
    match text.parse::<Board>() {
        _ if !in_text_range => {}
        Err(e) => t.mismatch("C05", "parse-canonical", case, json!(text), json!(format!("{e:?}"))),
        Ok(parsed) => {
            if !same_board(&parsed, board) || parsed.half_move_clock() != board.half_move_clock()
                || parsed.full_move_clock() != board.full_move_clock()
            {
                t.mismatch("C05", "parsed-differs", case, json!(text), pos_json(&parsed));
            }
            if parsed.to_string() != text {
                t.mismatch("C05", "parse-then-write", case, json!(text), json!(parsed.to_string()));
            }
        }
    }
    // C05: the incremental builder produces the identical board
    match build_from_pos(&exp["pos"]) {
        Err(e) => t.mismatch("C05", "builder-rejects", case, exp["pos"].clone(), json!(e)),
        Ok(built) => {
            if !same_board(&built, board) || sorted(legal_codes(&built)) != sorted(got.clone()) {
                t.mismatch("C05", "builder-differs", case, exp["pos"].clone(), pos_json(&built));
            }
        }
    }
    if probe {
        let p = probe_all(board);
        t.inc("probed_positions");
        t.add("probed_triples", 20480 * 4);
        if codes_of(&p["isl"]) != want {
            t.mismatch("C01", "is_legal", case, exp["legals"].clone(), p["isl"].clone());
        }
        for k in ["acc_new", "acc_mut", "acc_into"] {
            if codes_of(&p[k]) != want {
                t.mismatch("C02", k, case, exp["legals"].clone(), p[k].clone());
            }
        }
        if p["touched"] != json!(0) {
            t.mismatch("C02", "refusal-touched-board", case, json!(0), p["touched"].clone());
        }
    }
    let tags = classify_pos(board, &want);
    let key = obs["fen"].as_str().unwrap_or("").to_string();
    if !tags.is_empty() {
        for tg in &tags {
            t.inc(&format!("tag_{tg}"));
        }
        t.nontrivial.insert(key.clone());
    }
    t.distinct.insert(key);
}

pub fn replay_pos(opts: &Opts) -> i32 {
    let roots = read_json_file(&opts.str("roots", "/verif/spec/roots.json"));
    let probe_every = opts.num("probe-every", 8);
    let tag = opts.str("tag", "POS");
    let mut t = Tally::new();
    let stdin = std::io::stdin();
    let mut n = 0u64;
    for line in stdin.lock().lines() {
        let line = match line {
            Ok(l) => l,
            Err(_) => break,
        };
        let Some(rec) = unwrap_tlc_line(&line, &tag) else { continue };
        n += 1;
        t.inc("lines");
        let case = json!({"root": rec["root"], "name": rec["name"], "path": rec["path"], "fen": rec["exp"]["fen"]});
        op!("replay-pos {}", case);
        // the root: either an index into roots.json or an explicit FEN in the record
        let fen = match rec.get("rootfen").and_then(|v| v.as_str()) {
            Some(f) => f.to_string(),
            None => {
                let idx = rec["root"].as_u64().unwrap_or(1) as usize;
                roots[idx - 1]["fen"].as_str().unwrap_or("").to_string()
            }
        };
        let mut board: Board = match fen.parse() {
            Ok(b) => b,
            Err(e) => {
                t.mismatch("C06", "root-rejected", &case, json!(fen), json!(format!("{e:?}")));
                continue;
            }
        };
        let path = codes_of(&rec["path"]);
        let mut ok = true;
        for (i, &c) in path.iter().enumerate() {
            if !has_both_kings(&board) {
                ok = false;
                break;
            }
            match checked_move(&board, decode(c), (i as u32) + (n as u32)) {
                Some(b) => board = b,
                None => {
                    t.mismatch("C02", "legal-move-refused", &case, json!(c), json!(i));
                    ok = false;
                    break;
                }
            }
        }
        if !ok {
            continue;
        }
        let probe = probe_every > 0 && n % probe_every == 0;
        compare_obs(&mut t, &case, &board, &rec["exp"], !path.is_empty(), probe);
        if t.samples.len() < 3 && n % 97 == 1 {
            t.samples.push(json!({"case": case, "legals": rec["exp"]["legals"], "st": rec["exp"]["st"]}));
        }
    }
    t.summary(json!({}));
    0
}

// ------------------------------------------------------------------------------------------------
// impl -> spec: recorded walks (validated by ChessTrace.tla)
// ------------------------------------------------------------------------------------------------

fn is_interesting(board: &Board, c: u32) -> bool {
    let m = decode(c);
    let raw = board.raw();
    if c % 5 != 0 || raw.get(m.dest).is_some() {
        return true;
    }
    match raw.get(m.source) {
        Some((_, Piece::King)) => (m.source.to_u8() as i32 - m.dest.to_u8() as i32).abs() == 2,
        Some((_, Piece::Pawn)) => {
            m.source.to_u8() % 8 != m.dest.to_u8() % 8
                || (m.source.to_u8() as i32 - m.dest.to_u8() as i32).abs() == 16
        }
        _ => false,
    }
}

pub fn record_walk(opts: &Opts) -> i32 {
    let roots = read_json_file(&opts.str("roots", "/verif/spec/roots.json"));
    let seed = opts.num("seed", 1);
    let walks = opts.num("walks", 10);
    let plies = opts.num("plies", 60);
    let shard = opts.num("shard", 0);
    let probe_every = opts.num("probe-every", 25);
    let illegal_pct = opts.num("illegal-pct", 10);
    let tagsel = opts.str("tags", "");
    let out_path = opts.str("out", "trace.ndjson");
    let mut out = std::io::BufWriter::new(std::fs::File::create(&out_path).expect("create trace"));
    let sel: Vec<usize> = (0..roots.as_array().map_or(0, |a| a.len()))
        .filter(|&i| {
            tagsel.is_empty()
                || roots[i]["tags"]
                    .as_array()
                    .map_or(false, |tg| tg.iter().any(|x| tagsel.split(',').any(|s| x == s)))
        })
        .collect();
    if sel.is_empty() {
        eprintln!("no roots selected");
        return 2;
    }
    let mut events = 0u64;
    let mut rng = rng(seed, 1000 + shard);
    let mut t = Tally::new();
    for w in 0..walks {
        let ri = sel[((w + shard * walks) as usize) % sel.len()];
        let fen = roots[ri]["fen"].as_str().unwrap_or("");
        op!("record-walk seed={seed} shard={shard} walk={w} root={fen} parse");
        let mut board: Board = match fen.parse() {
            Ok(b) => b,
            Err(e) => {
                out_line("MISMATCH", &json!({"prop": "C06", "kind": "root-rejected", "case": fen, "exp": "accepted", "got": format!("{e:?}")}));
                continue;
            }
        };
        let ev = json!({"ev": "reset", "root": ri + 1, "fen_in": fen, "obs": obs_json(&board, true)});
        writeln!(out, "{ev}").unwrap();
        events += 1;
        for ply in 0..plies {
            if !has_both_kings(&board) {
                break;
            }
            op!("record-walk seed={seed} shard={shard} walk={w} ply={ply} board={board}");
            let legals = legal_codes(&board);
            if legals.is_empty() {
                break;
            }
            // choose: mostly a legal move (biased to captures, castling, promotions, pawn double
            // steps and en passant), sometimes an arbitrary triple to exercise refusal
            let c = if rng.gen_range(0..100) < illegal_pct {
                if rng.gen_bool(0.5) {
                    rng.gen_range(0..20480u32)
                } else {
                    // a near miss: a legal move with a changed promotion field or destination
                    let base = *legals.choose(&mut rng).unwrap();
                    if rng.gen_bool(0.5) { base - base % 5 + rng.gen_range(0..5) } else { base / 320 * 320 + rng.gen_range(0..320) }
                }
            } else {
                let hot: Vec<u32> = legals.iter().copied().filter(|&c| is_interesting(&board, c)).collect();
                if !hot.is_empty() && rng.gen_bool(0.5) {
                    *hot.choose(&mut rng).unwrap()
                } else {
                    *legals.choose(&mut rng).unwrap()
                }
            };
            let which = rng.gen_range(0..3u32);
            let before = board;
            let res = checked_move(&board, decode(c), which);
            let accepted = res.is_some();
            // a refusal must leave the receiver untouched (move_mut) - checked on the copy inside
            // checked_move for move_mut/move_into by comparing with `before`
            let untouched = same_board(&board, &before);
            if let Some(b) = res {
                board = b;
            }
            let opname = ["new", "mut", "into"][which as usize];
            let mut ev = json!({"ev": "move", "op": opname, "mv": c,
                                "accepted": accepted, "untouched": untouched,
                                "obs": obs_json(&board, true)});
            if probe_every > 0 && events % probe_every == 0 && has_both_kings(&board) {
                ev["probe"] = probe_all(&board);
                t.inc("probed_positions");
            }
            writeln!(out, "{ev}").unwrap();
            events += 1;
        }
    }
    out.flush().unwrap();
    t.add("events", events);
    t.summary(json!({"out": out_path}));
    0
}
