//! Board-level scenarios (C01-C07): key export, replay of TLC-generated positions, recorded walks.

use crate::proj::*;
use crate::util::*;
use chess_bitboard::{Color, File, Piece};
use chess_movegen::Board;
use rand::seq::SliceRandom;
use rand::Rng;
use serde_json::{json, Value};
use std::collections::{BTreeMap, HashSet};
use std::io::{BufRead, Write};

// ------------------------------------------------------------------------------------------------
// key table export (C04): read through the public accessors of chess-lookup
// ------------------------------------------------------------------------------------------------

pub fn export_keys(opts: &Opts) -> i32 {
    let mut piece = serde_json::Map::new();
    for c in Color::all() {
        for p in Piece::all() {
            let v: Vec<[u32; 4]> = (0..64u8)
                .map(|i| limbs(chess_lookup::zobrist(sq(i), p, c)))
                .collect();
            piece.insert(piece_ch(c, p).to_string(), json!(v));
        }
    }
    let ep: Vec<[u32; 4]> = File::all()
        .map(|f| limbs(chess_lookup::en_passant_zobrist(f)))
        .collect();
    // one key per SET of castling rights (bit 0 K, 1 Q, 2 k, 3 q), looked up the way the board does it
    // (through CastleRights::to_index), so that the table does not depend on the crate's internal bit layout
    let cr: Vec<[u32; 4]> = (0..16u8)
        .map(|m| {
            use chess_bitboard::Side;
            let mut r = chess_movegen::CastleRights::empty();
            for (i, (side, color)) in [(Side::King, Color::White), (Side::Queen, Color::White), (Side::King, Color::Black), (Side::Queen, Color::Black)]
                .into_iter()
                .enumerate()
            {
                if m & (1 << i) != 0 {
                    r = r.with(side, color);
                }
            }
            limbs(chess_lookup::castle_rights_zobrist(r.to_index()))
        })
        .collect();
    let keys = json!({
        "piece": piece,
        "turn": {"w": limbs(chess_lookup::turn_zobrist(Color::White)), "b": limbs(chess_lookup::turn_zobrist(Color::Black))},
        "ep": ep,
        "cr": cr,
    });
    let path = opts.str("out", "keys.json");
    std::fs::write(&path, keys.to_string()).expect("write keys");
    0
}

// ------------------------------------------------------------------------------------------------
// helpers
// ------------------------------------------------------------------------------------------------

/// strip TLC's `<<"TAG", "...json string literal...">>` wrapper
pub fn unwrap_tlc_line(line: &str, tag: &str) -> Option<Value> {
    let prefix = format!("<<\"{tag}\", ");
    let rest = line.strip_prefix(&prefix)?;
    crate::util::set_input_line(line);
    let lit = rest.strip_suffix(">>")?;
    let s: String = serde_json::from_str(lit).ok()?;
    serde_json::from_str(&s).ok()
}

fn sorted(mut v: Vec<u32>) -> Vec<u32> {
    v.sort();
    v
}

fn codes_of(v: &Value) -> Vec<u32> {
    v.as_array()
        .map(|a| a.iter().map(|x| x.as_u64().unwrap_or(0) as u32).collect())
        .unwrap_or_default()
}

/// apply a move through one of the three checked operations; None = refused
fn checked_move(board: &Board, mv: chess_movegen::ChessMove, which: u32) -> Option<Board> {
    match which % 3 {
        0 => board.move_new(mv),
        1 => {
            let mut b = *board;
            if b.move_mut(mv) {
                Some(b)
            } else {
                None
            }
        }
        _ => {
            let mut out = Board::standard();
            if board.move_into(mv, &mut out) {
                Some(out)
            } else {
                None
            }
        }
    }
}

/// bitwise identity of two boards as far as any accessor can see
fn same_board(a: &Board, b: &Board) -> bool {
    a == b
        && pos_json(a) == pos_json(b)
        && a.zobrist() == b.zobrist()
        && a.verif_piece_hash() == b.verif_piece_hash()
        && a.verif_checkers() == b.verif_checkers()
        && a.verif_pinned() == b.verif_pinned()
}

/// accepted sets of the four legality-deciding operations over all 20480 triples, and the number
/// of refusals that changed the receiver or the output board
fn probe_all(board: &Board) -> Value {
    let mut isl = vec![];
    let mut acc = [vec![], vec![], vec![]];
    let mut touched = 0u32;
    for c in all_codes() {
        let mv = decode(c);
        if board.is_legal(mv) {
            isl.push(c);
        }
        // move_new
        if board.move_new(mv).is_some() {
            acc[0].push(c);
        }
        // move_mut
        let mut b = *board;
        if b.move_mut(mv) {
            acc[1].push(c);
        } else if !same_board(&b, board) {
            touched += 1;
        }
        // move_into: the output must stay what it was when the move is refused
        let sentinel = Board::standard();
        let mut out = sentinel;
        if board.move_into(mv, &mut out) {
            acc[2].push(c);
        } else if !same_board(&out, &sentinel) {
            touched += 1;
        }
    }
    json!({"isl": isl, "acc_new": acc[0], "acc_mut": acc[1], "acc_into": acc[2], "touched": touched})
}

struct Tally {
    counts: BTreeMap<String, u64>,
    distinct: HashSet<String>,
    nontrivial: HashSet<String>,
    mismatches: u64,
    samples: Vec<Value>,
}

impl Tally {
    fn new() -> Self {
        Tally {
            counts: BTreeMap::new(),
            distinct: HashSet::new(),
            nontrivial: HashSet::new(),
            mismatches: 0,
            samples: vec![],
        }
    }
    fn inc(&mut self, k: &str) {
        *self.counts.entry(k.to_string()).or_insert(0) += 1;
    }
    fn add(&mut self, k: &str, n: u64) {
        *self.counts.entry(k.to_string()).or_insert(0) += n;
    }
    fn mismatch(&mut self, prop: &str, kind: &str, case: &Value, exp: Value, got: Value) {
        self.mismatches += 1;
        self.inc(&format!("mismatch_{prop}"));
        out_line(
            "MISMATCH",
            &json!({"prop": prop, "kind": kind, "case": case, "exp": exp, "got": got}),
        );
    }
    fn summary(&self, extra: Value) {
        out_line(
            "SUMMARY",
            &json!({"counts": self.counts, "distinct": self.distinct.len(), "nontrivial": self.nontrivial.len(),
                    "mismatches": self.mismatches, "samples": self.samples, "extra": extra}),
        );
    }
}

/// what makes a position non-trivial for C01-C03: its legal set contains an en-passant capture,
/// a castling move or a promotion, or the side to move is in check
fn classify_pos(board: &Board, legals: &[u32]) -> Vec<&'static str> {
    let mut tags = vec![];
    let raw = board.raw();
    let mut ep = false;
    let mut castle = false;
    let mut promo = false;
    for &c in legals {
        let m = decode(c);
        if c % 5 != 0 {
            promo = true;
        }
        if let Some((_, Piece::King)) = raw.get(m.source) {
            let d = (m.source.to_u8() as i32 - m.dest.to_u8() as i32).abs();
            if d == 2 {
                castle = true;
            }
        }
        if let Some((_, Piece::Pawn)) = raw.get(m.source) {
            if m.source.to_u8() % 8 != m.dest.to_u8() % 8 && raw.get(m.dest).is_none() {
                ep = true;
            }
        }
    }
    if ep {
        tags.push("ep");
    }
    if castle {
        tags.push("castle");
    }
    if promo {
        tags.push("promo");
    }
    if board.in_check() {
        tags.push("check");
    }
    tags
}

// ------------------------------------------------------------------------------------------------
// spec -> impl: replay positions generated by TLC (ChessMC.tla / families)
// ------------------------------------------------------------------------------------------------

fn compare_obs(t: &mut Tally, case: &Value, board: &Board, exp: &Value, moved: bool, probe: bool) {
    let obs = obs_json(board, true);
    // C02 / C05: the projected position
    if obs["pos"] != exp["pos"] {
        t.mismatch(if moved { "C02" } else { "C05" }, "position", case, exp["pos"].clone(), obs["pos"].clone());
    }
    if obs["raw_ok"] != json!(true) {
        t.mismatch("C02", "raw-inconsistent", case, json!(true), obs["raw_ok"].clone());
    }
    // C01: each legal move exactly once
    let got = codes_of(&obs["legals"]);
    let want = codes_of(&exp["legals"]);
    if sorted(got.clone()) != want {
        t.mismatch("C01", "legals", case, exp["legals"].clone(), json!(sorted(got.clone())));
    }
    if obs["len"].as_u64() != Some(want.len() as u64) || obs["empty"].as_bool() != Some(want.is_empty()) {
        t.mismatch("C10", "fresh-len", case, json!(want.len()), json!([obs["len"], obs["empty"]]));
    }
    // C03
    for k in ["chk", "st"] {
        if obs[k] != exp[k] {
            t.mismatch("C03", k, case, exp[k].clone(), obs[k].clone());
        }
    }
    // the set of checking pieces is internal state (hook): disagreement with the model is drift
    if obs["cks"] != exp["cks"] {
        t.inc("drift_checkers");
        if t.counts["drift_checkers"] <= 3 {
            out_line("DRIFT", &json!({"kind": "checkers", "case": case, "exp": exp["cks"], "got": obs["cks"]}));
        }
    }
    // C04
    if obs["zob"] != exp["zob"] {
        t.mismatch("C04", "zobrist", case, exp["zob"].clone(), obs["zob"].clone());
    }
    // C05: writer
    if obs["fen"] != exp["fen"] {
        t.mismatch("C05", "write", case, exp["fen"].clone(), obs["fen"].clone());
    }
    // twin: the same position rebuilt from the implementation's own text
    // (C05 quantifies over clock values 0..9999: the text form has four digits)
    let in_text_range = board.half_move_clock() <= 9999 && board.full_move_clock() <= 9999;
    let tw = &obs["twin"];
    if !in_text_range {
        t.inc("beyond_text_range");
    } else if tw["ok"] != json!(true) {
        t.mismatch("C05", "reparse-own-text", case, json!("ok"), tw.clone());
    } else {
        if tw["eq"] != json!(true) || tw["pos_eq"] != json!(true) {
            t.mismatch("C05", "twin-equal", case, json!(true), json!([tw["eq"], tw["pos_eq"]]));
        }
        if tw["probe"] != json!(true) {
            t.mismatch("C04", "twin-hashmap-probe", case, json!(true), tw["probe"].clone());
        }
        if tw["zob"] != obs["zob"] || tw["phash"] != obs["phash"] {
            t.mismatch("C04", "twin-hash", case, obs["zob"].clone(), tw["zob"].clone());
        }
        for k in ["legals", "chk", "st", "cks", "pins", "fen"] {
            let same = if k == "legals" {
                sorted(codes_of(&tw[k])) == sorted(codes_of(&obs[k]))
            } else {
                tw[k] == obs[k]
            };
            if !same {
                t.mismatch("C03", &format!("twin-{k}"), case, obs[k].clone(), tw[k].clone());
            }
        }
        if tw["dbg_eq"] != json!(true) || tw["dbga_eq"] != json!(true) {
            t.mismatch("C03", "twin-debug", case, json!(true), json!([tw["dbg_eq"], tw["dbga_eq"]]));
        }
        // the pin/shield cache has no rule-level meaning; disagreement with the model of it is drift
        if obs["pins"] != exp["pins"] && tw["pins"] == obs["pins"] {
            t.inc("drift_pins");
            if t.counts["drift_pins"] <= 3 {
                out_line("DRIFT", &json!({"kind": "pins", "case": case, "exp": exp["pins"], "got": obs["pins"]}));
            }
        }
    }
    // C05: the specification's text parses to this very board and is written back byte for byte
    let text = exp["fen"].as_str().unwrap_or("");
    match text.parse::<Board>() {
        _ if !in_text_range => {}
        Err(e) => {
            // a canonical text that is rejected breaks both C05 (round trip) and C06 (acceptance)
            t.mismatch("C05", "parse-canonical", case, json!(text), json!(format!("{e:?}")));
            t.mismatch("C06", "canonical-rejected", case, json!(text), json!(format!("{e:?}")));
        }
        Ok(parsed) => {
            if !same_board(&parsed, board) || parsed.half_move_clock() != board.half_move_clock()
                || parsed.full_move_clock() != board.full_move_clock()
            {
                t.mismatch("C05", "parsed-differs", case, json!(text), pos_json(&parsed));
            }
            if parsed.to_string() != text {
                t.mismatch("C05", "parse-then-write", case, json!(text), json!(parsed.to_string()));
            }
        }
    }
    // C05: the incremental builder produces the identical board
    match build_from_pos(&exp["pos"]) {
        Err(e) => t.mismatch("C05", "builder-rejects", case, exp["pos"].clone(), json!(e)),
        Ok(built) => {
            if !same_board(&built, board) || sorted(legal_codes(&built)) != sorted(got.clone()) {
                t.mismatch("C05", "builder-differs", case, exp["pos"].clone(), pos_json(&built));
            }
        }
    }
    // every generated move must be confirmed by is_legal and accepted by the checked operations
    // (cheap, so it is done on every position; the full sweep over all 20480 triples is sampled)
    {
        let mut refused = vec![];
        for &c in &got {
            let m = decode(c);
            let mut copy = *board;
            if !board.is_legal(m) || board.move_new(m).is_none() || !copy.move_mut(m) {
                refused.push(c);
            }
        }
        if !refused.is_empty() {
            t.mismatch("C01", "is_legal-refuses-generated-move", case, json!([]), json!(refused.clone()));
            t.mismatch("C02", "checked-operation-refuses-generated-move", case, json!([]), json!(refused));
        }
    }
    match build_messy_from_pos(&exp["pos"], board.zobrist() % 97) {
        Err(e) => t.mismatch("C05", "builder-messy-rejects", case, exp["pos"].clone(), json!(e)),
        Ok(built) => {
            if built.zobrist() != board.zobrist() || built.verif_piece_hash() != board.verif_piece_hash() {
                t.mismatch("C04", "builder-hash-after-refused-place-or-remove", case, obs["zob"].clone(), json!(limbs(built.zobrist())));
            }
            if !same_board(&built, board) {
                t.mismatch("C05", "builder-messy-differs", case, exp["pos"].clone(), pos_json(&built));
            }
        }
    }
    if probe {
        let p = probe_all(board);
        t.inc("probed_positions");
        t.add("probed_triples", 20480 * 4);
        if codes_of(&p["isl"]) != want {
            t.mismatch("C01", "is_legal", case, exp["legals"].clone(), p["isl"].clone());
        }
        for k in ["acc_new", "acc_mut", "acc_into"] {
            if codes_of(&p[k]) != want {
                t.mismatch("C02", k, case, exp["legals"].clone(), p[k].clone());
            }
        }
        if p["touched"] != json!(0) {
            t.mismatch("C02", "refusal-touched-board", case, json!(0), p["touched"].clone());
        }
    }
    let tags = classify_pos(board, &want);
    let key = obs["fen"].as_str().unwrap_or("").to_string();
    if !tags.is_empty() {
        for tg in &tags {
            t.inc(&format!("tag_{tg}"));
        }
        t.nontrivial.insert(key.clone());
    }
    t.distinct.insert(key);
}

pub fn replay_pos(opts: &Opts) -> i32 {
    let roots = read_json_file(&opts.str("roots", &crate::util::default_roots()));
    let probe_every = opts.num("probe-every", 8);
    let tag = opts.str("tag", "POS");
    let mut t = Tally::new();
    let stdin = std::io::stdin();
    let mut n = 0u64;
    for line in stdin.lock().lines() {
        let line = match line {
            Ok(l) => l,
            Err(_) => break,
        };
        let Some(rec) = unwrap_tlc_line(&line, &tag) else { continue };
        n += 1;
        t.inc("lines");
        let case = json!({"root": rec["root"], "name": rec["name"], "path": rec["path"], "fen": rec["exp"]["fen"]});
        op!("replay-pos {}", case);
        // the root: either an index into roots.json or an explicit FEN in the record
        let fen = match rec.get("rootfen").and_then(|v| v.as_str()) {
            Some(f) => f.to_string(),
            None => {
                let idx = rec["root"].as_u64().unwrap_or(1) as usize;
                roots[idx - 1]["fen"].as_str().unwrap_or("").to_string()
            }
        };
        let mut board: Board = match fen.parse() {
            Ok(b) => b,
            Err(e) => {
                t.mismatch("C06", "root-rejected", &case, json!(fen), json!(format!("{e:?}")));
                continue;
            }
        };
        let path = codes_of(&rec["path"]);
        let mut ok = true;
        for (i, &c) in path.iter().enumerate() {
            if !has_both_kings(&board) {
                ok = false;
                break;
            }
            match checked_move(&board, decode(c), (i as u32) + (n as u32)) {
                Some(b) => board = b,
                None => {
                    t.mismatch("C02", "legal-move-refused", &case, json!(c), json!(i));
                    ok = false;
                    break;
                }
            }
        }
        if !ok {
            continue;
        }
        let probe = probe_every > 0 && n % probe_every == 0;
        compare_obs(&mut t, &case, &board, &rec["exp"], !path.is_empty(), probe);
        // layer S conformance (drift only): the generator's entry list as the model predicts it
        if let Some(want) = rec.get("sys_entries").and_then(|v| v.as_array()) {
            let got: Vec<Value> = board.legals().verif_entries().iter().map(|(s, d, p)| json!([s.to_u8(), bb_list(*d), p])).collect();
            t.inc("sys_entries_compared");
            if &got != want {
                t.inc("drift_entries");
                if t.counts["drift_entries"] <= 3 {
                    out_line("DRIFT", &json!({"kind": "entries", "case": case, "exp": want, "got": got}));
                }
            }
        }
        if t.samples.len() < 3 && n % 97 == 1 {
            t.samples.push(json!({"case": case, "legals": rec["exp"]["legals"], "st": rec["exp"]["st"]}));
        }
    }
    t.summary(json!({}));
    0
}

// ------------------------------------------------------------------------------------------------
// impl -> spec: recorded walks (validated by ChessTrace.tla)
// ------------------------------------------------------------------------------------------------

fn is_interesting(board: &Board, c: u32) -> bool {
    let m = decode(c);
    let raw = board.raw();
    if c % 5 != 0 || raw.get(m.dest).is_some() {
        return true;
    }
    match raw.get(m.source) {
        Some((_, Piece::King)) => (m.source.to_u8() as i32 - m.dest.to_u8() as i32).abs() == 2,
        Some((_, Piece::Pawn)) => {
            m.source.to_u8() % 8 != m.dest.to_u8() % 8
                || (m.source.to_u8() as i32 - m.dest.to_u8() as i32).abs() == 16
        }
        _ => false,
    }
}

pub fn record_walk(opts: &Opts) -> i32 {
    let roots = read_json_file(&opts.str("roots", &crate::util::default_roots()));
    let seed = opts.num("seed", 1);
    let walks = opts.num("walks", 10);
    let plies = opts.num("plies", 60);
    let shard = opts.num("shard", 0);
    let probe_every = opts.num("probe-every", 25);
    let illegal_pct = opts.num("illegal-pct", 10);
    // probability (percent) of undoing one's own previous move: positions then recur by different
    // paths (transpositions), which is what the hash property quantifies over
    let undo_pct = opts.num("undo-pct", 0);
    let tagsel = opts.str("tags", "");
    let out_path = opts.str("out", "trace.ndjson");
    let mut out = std::io::BufWriter::new(std::fs::File::create(&out_path).expect("create trace"));
    let sel: Vec<usize> = (0..roots.as_array().map_or(0, |a| a.len()))
        .filter(|&i| {
            tagsel.is_empty()
                || roots[i]["tags"]
                    .as_array()
                    .map_or(false, |tg| tg.iter().any(|x| tagsel.split(',').any(|s| x == s)))
        })
        .collect();
    if sel.is_empty() {
        eprintln!("no roots selected");
        return 2;
    }
    let mut events = 0u64;
    let mut rng = rng(seed, 1000 + shard);
    let mut t = Tally::new();
    for w in 0..walks {
        let ri = sel[((w + shard * walks) as usize) % sel.len()];
        let fen = roots[ri]["fen"].as_str().unwrap_or("");
        op!("record-walk seed={seed} shard={shard} walk={w} root={fen} parse");
        let mut board: Board = match fen.parse() {
            Ok(b) => b,
            Err(e) => {
                out_line("MISMATCH", &json!({"prop": "C06", "kind": "root-rejected", "case": fen, "exp": "accepted", "got": format!("{e:?}")}));
                continue;
            }
        };
        let ev = json!({"ev": "reset", "root": ri + 1, "fen_in": fen, "obs": obs_json(&board, true)});
        writeln!(out, "{ev}").unwrap();
        events += 1;
        let mut played: Vec<u32> = vec![];
        for ply in 0..plies {
            if !has_both_kings(&board) {
                break;
            }
            op!("record-walk seed={seed} shard={shard} walk={w} ply={ply} board={board}");
            let legals = legal_codes(&board);
            if legals.is_empty() {
                break;
            }
            let undo = if played.len() >= 2 && rng.gen_range(0..100) < undo_pct {
                let p = decode(played[played.len() - 2]);
                let inv = code(chess_movegen::ChessMove { source: p.dest, dest: p.source, piece: None });
                if legals.contains(&inv) { Some(inv) } else { None }
            } else {
                None
            };
            // choose: mostly a legal move (biased to captures, castling, promotions, pawn double
            // steps and en passant), sometimes an arbitrary triple to exercise refusal
            let c = if let Some(inv) = undo {
                inv
            } else if rng.gen_range(0..100) < illegal_pct {
                if rng.gen_bool(0.5) {
                    rng.gen_range(0..20480u32)
                } else {
                    // a near miss: a legal move with a changed promotion field or destination
                    let base = *legals.choose(&mut rng).unwrap();
                    if rng.gen_bool(0.5) { base - base % 5 + rng.gen_range(0..5) } else { base / 320 * 320 + rng.gen_range(0..320) }
                }
            } else {
                let hot: Vec<u32> = legals.iter().copied().filter(|&c| is_interesting(&board, c)).collect();
                if !hot.is_empty() && rng.gen_bool(0.5) {
                    *hot.choose(&mut rng).unwrap()
                } else {
                    *legals.choose(&mut rng).unwrap()
                }
            };
            let which = rng.gen_range(0..3u32);
            let before = board;
            let res = checked_move(&board, decode(c), which);
            let accepted = res.is_some();
            // a refusal must leave the receiver untouched (move_mut) - checked on the copy inside
            // checked_move for move_mut/move_into by comparing with `before`
            let untouched = same_board(&board, &before);
            if let Some(b) = res {
                board = b;
                played.push(c);
            }
            let opname = ["new", "mut", "into"][which as usize];
            let refused_generated: Vec<u32> = if has_both_kings(&board) {
                legal_codes(&board).into_iter().filter(|&x| !board.is_legal(decode(x)) || board.move_new(decode(x)).is_none()).collect()
            } else {
                vec![]
            };
            let mut ev = json!({"ev": "move", "op": opname, "mv": c, "refused_generated": refused_generated,
                                "accepted": accepted, "untouched": untouched,
                                "obs": obs_json(&board, true)});
            if probe_every > 0 && events % probe_every == 0 && has_both_kings(&board) {
                ev["probe"] = probe_all(&board);
                t.inc("probed_positions");
            }
            writeln!(out, "{ev}").unwrap();
            events += 1;
            // neighbours of the board that differ in exactly one component of the position's identity
            // (en-passant marker dropped, one castling right dropped) or only in the clocks: what `==`
            // says about the pair, and both hashes ("boards that compare equal always hash equal")
            if accepted && has_both_kings(&board) && (board.verif_ep_file().is_some() || events % 7 == 0) {
                for v in field_variants(&board) {
                    let cmp = json!({"ev": "cmp", "a": pos_json(&board), "b": pos_json(&v), "eq": board == v,
                                     "za": limbs(board.zobrist()), "zb": limbs(v.zobrist())});
                    writeln!(out, "{cmp}").unwrap();
                    events += 1;
                    t.inc("compared_pairs");
                }
            }
        }
    }
    out.flush().unwrap();
    t.add("events", events);
    t.summary(json!({"out": out_path}));
    0
}

/// boards obtained from the text of `board` with one field changed: no en-passant marker, one
/// castling right less, other clocks (only those the parser accepts)
fn field_variants(board: &Board) -> Vec<Board> {
    let text = board.to_string();
    let f: Vec<&str> = text.split(' ').collect();
    let mut out = vec![];
    if f.len() != 6 {
        return out;
    }
    let mut texts: Vec<String> = vec![];
    if f[3] != "-" {
        texts.push(format!("{} {} {} - {} {}", f[0], f[1], f[2], f[4], f[5]));
    }
    if f[2] != "-" {
        for ch in f[2].chars() {
            let rest: String = f[2].chars().filter(|&c| c != ch).collect();
            let rest = if rest.is_empty() { "-".to_string() } else { rest };
            texts.push(format!("{} {} {} {} {} {}", f[0], f[1], rest, f[3], f[4], f[5]));
        }
    }
    texts.push(format!("{} {} {} {} {} {}", f[0], f[1], f[2], f[3], "7", "77"));
    for t in texts {
        if let Ok(b) = t.parse::<Board>() {
            out.push(b);
        }
    }
    out
}

// ------------------------------------------------------------------------------------------------
// C06: the parser on arbitrary byte strings, the builder on arbitrary assemblies
// ------------------------------------------------------------------------------------------------

const HOT_BYTES: &[u8] = b"0123456789/ -wbKQkqPNBRpnbrabcdefgh\x00\xff\x80\t\n";

fn mutations(base: &[u8], rng: &mut impl Rng, out: &mut Vec<Vec<u8>>) {
    let n = base.len();
    for i in 0..n {
        // delete, truncate, duplicate, swap
        let mut d = base.to_vec();
        d.remove(i);
        out.push(d);
        out.push(base[..i].to_vec());
        let mut dup = base.to_vec();
        dup.insert(i, base[i]);
        out.push(dup);
        if i + 1 < n {
            let mut sw = base.to_vec();
            sw.swap(i, i + 1);
            out.push(sw);
        }
        for &b in HOT_BYTES {
            if b != base[i] {
                let mut r = base.to_vec();
                r[i] = b;
                out.push(r);
            }
            // insertion of every hot byte at a seeded third of the indices (all in total over seeds)
            if rng.gen_range(0..3) == 0 {
                let mut ins = base.to_vec();
                ins.insert(i, b);
                out.push(ins);
            }
        }
        // any byte at all
        let mut r = base.to_vec();
        r[i] = rng.gen();
        out.push(r);
    }
    for &b in HOT_BYTES {
        let mut a = base.to_vec();
        a.push(b);
        out.push(a);
    }
    // field-level: drop / duplicate / reorder whitespace-separated fields
    let fields: Vec<&[u8]> = base.split(|&c| c == b' ').collect();
    for i in 0..fields.len() {
        let mut f = fields.clone();
        f.remove(i);
        out.push(f.join(&b' '));
        let mut f = fields.clone();
        f.insert(i, fields[i]);
        out.push(f.join(&b' '));
        let mut f = fields.clone();
        f.swap(i, (i + 1) % fields.len());
        out.push(f.join(&b' '));
    }
    out.push(base.iter().map(|&c| if c == b' ' { b'\t' } else { c }).collect());
    out.push(base.iter().flat_map(|&c| if c == b' ' { vec![b' ', b' '] } else { vec![c] }).collect());
}

/// exercise an accepted board through the safe API; returns false if anything looks off
fn exercise(board: &Board) {
    let _ = board.to_string();
    let _ = format!("{board:?}{board:#?}");
    let _ = board.zobrist();
    let _ = board.in_check();
    let n = board.legals().count();
    let mut k = 0;
    for m in board.legals() {
        k += 1;
        let next = board.move_new(m);
        if let Some(nb) = next {
            if has_both_kings(&nb) {
                let _ = nb.legals().len();
                let _ = nb.state();
            }
        }
    }
    let _ = (n, k);
    let _ = board.state();
}

pub fn record_fen(opts: &Opts) -> i32 {
    let roots = read_json_file(&opts.str("roots", &crate::util::default_roots()));
    let seed = opts.num("seed", 1);
    let shard = opts.num("shard", 0);
    let shards = opts.num("shards", 1);
    let cap = opts.num("events", 20000);
    let full_every = opts.num("full-every", 60);
    let mut out = std::io::BufWriter::new(std::fs::File::create(opts.str("out", "fen.ndjson")).unwrap());
    let mut rng = rng(seed, 3000 + shard);
    let mut t = Tally::new();
    // bases: the roots of this shard and positions along short walks from them
    let mut bases: Vec<String> = vec![];
    for (i, r) in roots.as_array().unwrap().iter().enumerate() {
        if (i as u64) % shards != shard {
            continue;
        }
        let fen = r["fen"].as_str().unwrap().to_string();
        if let Ok(mut b) = fen.parse::<Board>() {
            for _ in 0..3 {
                if !has_both_kings(&b) {
                    break;
                }
                let l = legal_codes(&b);
                if l.is_empty() {
                    break;
                }
                b = match b.move_new(decode(*l.choose(&mut rng).unwrap())) {
                    Some(n) => n,
                    None => break,
                };
                if has_both_kings(&b) && b.half_move_clock() <= 9999 && b.full_move_clock() <= 9999 {
                    bases.push(b.to_string());
                }
            }
        }
        bases.push(fen);
    }
    let mut events = 0u64;
    let mut seen: HashSet<String> = HashSet::new();
    let mut emit = |t: &mut Tally, out: &mut std::io::BufWriter<std::fs::File>, src: &str, text: &[u8], board: &Board, events: &mut u64| {
        let key = format!("{}", pos_json(board));
        if !seen.insert(key) {
            return;
        }
        t.inc("accepted_distinct");
        if *events >= cap {
            t.inc("accepted_not_logged");
            return;
        }
        let full = full_every > 0 && *events % full_every == 0 && has_both_kings(board);
        let ev = if full {
            json!({"ev": "parsed", "src": src, "text": String::from_utf8_lossy(text), "full": true, "obs": obs_json(board, true)})
        } else {
            json!({"ev": "parsed", "src": src, "text": String::from_utf8_lossy(text), "full": false, "obs": {"pos": pos_json(board)}})
        };
        writeln!(out, "{ev}").unwrap();
        *events += 1;
    };
    for base in &bases {
        let mut muts = vec![];
        mutations(base.as_bytes(), &mut rng, &mut muts);
        for m in muts {
            t.inc("strings_tried");
            op!("record-fen parse {:?}", String::from_utf8_lossy(&m));
            match chess_movegen::fen::parse_fen(&m) {
                Ok(board) => {
                    t.inc("strings_accepted");
                    // whatever was accepted must be usable through the safe API (C07 reads the panic)
                    if has_both_kings(&board) {
                        op!("record-fen exercise accepted {:?}", String::from_utf8_lossy(&m));
                        exercise(&board);
                    }
                    emit(&mut t, &mut out, "fen", &m, &board, &mut events);
                }
                Err(e) => {
                    // the error must be printable
                    let _ = e.to_string();
                    t.inc("strings_rejected");
                }
            }
            // str entry point agrees with the byte entry point
            if let Ok(s) = std::str::from_utf8(&m) {
                if s.parse::<Board>().is_ok() != chess_movegen::fen::parse_fen(&m).is_ok() {
                    out_line("MISMATCH", &json!({"prop": "C06", "kind": "str-vs-bytes", "case": s, "exp": "same", "got": "differ"}));
                }
            }
        }
    }
    // random byte strings and structured-random strings
    for i in 0..opts.num("random", 20000) {
        let len = rng.gen_range(0..90);
        let s: Vec<u8> = (0..len)
            .map(|_| if i % 2 == 0 { rng.gen() } else { HOT_BYTES[rng.gen_range(0..HOT_BYTES.len())] })
            .collect();
        t.inc("strings_tried");
        op!("record-fen parse random {:?}", s);
        if let Ok(board) = chess_movegen::fen::parse_fen(&s) {
            t.inc("strings_accepted");
            if has_both_kings(&board) {
                exercise(&board);
            }
            emit(&mut t, &mut out, "fen", &s, &board, &mut events);
        }
    }
    // the builder on arbitrary small assemblies
    use chess_bitboard::Side;
    for _ in 0..opts.num("builds", 20000) {
        let mut b = Board::builder();
        let npieces = rng.gen_range(2..7);
        let mut desc = String::new();
        // kings first (sometimes missing / doubled), biased to home squares and to each other
        let letters = ["K", "k", "R", "r", "P", "p", "Q", "q", "N", "n", "B", "b"];
        for i in 0..npieces {
            let ch = if i == 0 { "K" } else if i == 1 && rng.gen_range(0..20) != 0 { "k" } else { letters[rng.gen_range(0..letters.len())] };
            let s = match rng.gen_range(0..4) {
                0 => *[0u8, 4, 7, 56, 60, 63].choose(&mut rng).unwrap(),
                1 => rng.gen_range(24..40),
                _ => rng.gen_range(0..64),
            };
            let (c, p) = piece_of_letter(ch).unwrap();
            if b.place(sq(s), c, p).is_ok() {
                desc.push_str(&format!("{ch}{s} "));
            }
        }
        let turn = if rng.gen_bool(0.5) { Color::White } else { Color::Black };
        b.turn(turn);
        let mut cr = chess_movegen::CastleRights::empty();
        let bits = if rng.gen_bool(0.5) { 0 } else { rng.gen_range(0..16) };
        for (k, (s, c)) in [(Side::King, Color::White), (Side::Queen, Color::White), (Side::King, Color::Black), (Side::Queen, Color::Black)].iter().enumerate() {
            if bits & (1 << k) != 0 {
                cr = cr.with(*s, *c);
            }
        }
        b.castle_rights(cr);
        if rng.gen_range(0..3) == 0 {
            b.enpassant(File::from_u8(rng.gen_range(0..8)));
        }
        b.half_move_clock(rng.gen_range(0..120));
        b.full_move_clock(rng.gen_range(0..200));
        desc.push_str(&format!("turn={turn:?} rights={bits}"));
        t.inc("builds_tried");
        op!("record-fen build {desc}");
        if let Ok(board) = b.build() {
            t.inc("builds_accepted");
            if has_both_kings(&board) {
                op!("record-fen exercise built {desc}");
                exercise(&board);
            }
            emit(&mut t, &mut out, "builder", desc.as_bytes(), &board, &mut events);
        }
    }
    out.flush().unwrap();
    t.add("events", events);
    t.summary(json!({}));
    0
}

// ------------------------------------------------------------------------------------------------
// C05: the clock sweep (lines generated by spec/ClockSweep.tla)
// ------------------------------------------------------------------------------------------------

pub fn replay_clocks(_opts: &Opts) -> i32 {
    let stdin = std::io::stdin();
    let mut lines = 0u64;
    let mut mism = 0u64;
    for line in stdin.lock().lines() {
        let Ok(line) = line else { break };
        let Some(rec) = unwrap_tlc_line(&line, "CLK") else { continue };
        lines += 1;
        let fen = rec["fen"].as_str().unwrap_or("");
        op!("replay-clocks {fen}");
        match fen.parse::<Board>() {
            Err(e) => {
                mism += 1;
                out_line("MISMATCH", &json!({"prop": "C05", "kind": "clock-text-rejected", "case": fen, "exp": "accepted", "got": format!("{e:?}")}));
            }
            Ok(b) => {
                let got = json!([b.half_move_clock(), b.full_move_clock(), b.to_string()]);
                let want = json!([rec["hm"], rec["fm"], fen]);
                if got != want {
                    mism += 1;
                    out_line("MISMATCH", &json!({"prop": "C05", "kind": "clock-round-trip", "case": fen, "exp": want, "got": got}));
                }
                // the builder with the same clocks writes the same text
                let mut bb = Board::builder();
                for i in 0..64u8 {
                    if let Some((c, p)) = b.raw().get(sq(i)) {
                        let _ = bb.place(sq(i), c, p);
                    }
                }
                bb.turn(b.turn());
                bb.half_move_clock(rec["hm"].as_u64().unwrap_or(0) as u16);
                bb.full_move_clock(rec["fm"].as_u64().unwrap_or(0) as u16);
                use chess_bitboard::Side;
                bb.castle_rights(chess_movegen::CastleRights::empty().with(Side::Queen, Color::White).with(Side::King, Color::Black));
                match bb.build() {
                    Ok(built) if built.to_string() == fen && built == b => {}
                    other => {
                        mism += 1;
                        out_line("MISMATCH", &json!({"prop": "C05", "kind": "clock-builder", "case": fen, "exp": fen, "got": other.map(|x| x.to_string()).map_err(|e| format!("{e:?}"))}));
                    }
                }
            }
        }
    }
    out_line("SUMMARY", &json!({"counts": {"lines": lines}, "distinct": lines, "nontrivial": lines, "mismatches": mism, "samples": [], "extra": {}}));
    0
}

// ------------------------------------------------------------------------------------------------
// C03, second sentence, in volume: a board reached by playing moves against the same position
// rebuilt from its text.  No oracle is involved (equality of two observations of the implementation),
// so this runs at implementation speed; the specification-based steps decide everything else.
// ------------------------------------------------------------------------------------------------

pub fn sweep_twin(opts: &Opts) -> i32 {
    let roots = read_json_file(&opts.str("roots", &crate::util::default_roots()));
    let seed = opts.num("seed", 1);
    let shard = opts.num("shard", 0);
    let walks = opts.num("walks", 500);
    let plies = opts.num("plies", 60);
    let mut rng = rng(seed, 7000 + shard);
    let probe_every = opts.num("probe-every", 0);
    let mut t = Tally::new();
    let n = roots.as_array().map_or(0, |a| a.len());
    for w in 0..walks {
        let r = &roots[((w + shard * 31) as usize) % n];
        let fen = r["fen"].as_str().unwrap_or("");
        let Ok(mut board) = fen.parse::<Board>() else { continue };
        for ply in 0..plies {
            if !has_both_kings(&board) || board.half_move_clock() > 9000 || board.full_move_clock() > 9000 {
                break;
            }
            op!("sweep-twin seed={seed} shard={shard} walk={w} ply={ply} board={board}");
            let legals = legal_codes(&board);
            if legals.is_empty() {
                break;
            }
            let hot: Vec<u32> = legals.iter().copied().filter(|&c| is_interesting(&board, c)).collect();
            let c = if !hot.is_empty() && rng.gen_bool(0.6) { *hot.choose(&mut rng).unwrap() } else { *legals.choose(&mut rng).unwrap() };
            let Some(next) = checked_move(&board, decode(c), ply as u32) else { break };
            board = next;
            if !has_both_kings(&board) {
                break;
            }
            t.inc("positions");
            let text = board.to_string();
            let case = json!({"root": fen, "walk": w, "ply": ply, "fen": text});
            match text.parse::<Board>() {
                Err(e) => t.mismatch("C05", "reparse-own-text", &case, json!("ok"), json!(format!("{e:?}"))),
                Ok(twin) => {
                    let a = obs_json(&board, false);
                    let b = obs_json(&twin, false);
                    for k in ["chk", "st", "cks", "pins", "zob", "phash", "fen", "len", "empty"] {
                        if a[k] != b[k] {
                            t.mismatch("C03", &format!("twin-{k}"), &case, b[k].clone(), a[k].clone());
                            if k == "zob" || k == "phash" {
                                // C04: the incrementally maintained hash against the hash built from scratch
                                t.mismatch("C04", "incremental-hash-differs-from-rebuilt", &case, b[k].clone(), a[k].clone());
                            }
                        }
                    }
                    if sorted(codes_of(&a["legals"])) != sorted(codes_of(&b["legals"])) {
                        t.mismatch("C03", "twin-legals", &case, b["legals"].clone(), a["legals"].clone());
                    }
                    if format!("{board:?}") != format!("{twin:?}") || format!("{board:#?}") != format!("{twin:#?}") || board != twin {
                        t.mismatch("C03", "twin-debug-or-eq", &case, json!(format!("{twin:?}")), json!(format!("{board:?}")));
                    }
                    // C05: the incremental builder, fed the projected fields, assembles the identical board
                    match build_from_pos(&a["pos"]) {
                        Ok(built) if same_board(&built, &board) && built.to_string() == text => {}
                        other => t.mismatch("C05", "builder-differs-from-moved-board", &case, json!(text),
                                            json!(other.map(|x| x.to_string()))),
                    }
                    // C01 (last sentence) / C02: the single-move questions against the generator's own list,
                    // over all 20480 triples, on every n-th position
                    if probe_every > 0 && t.counts.get("positions").copied().unwrap_or(0) % probe_every == 0 {
                        let p = probe_all(&board);
                        let gen = sorted(codes_of(&a["legals"]));
                        t.inc("probed_positions");
                        if codes_of(&p["isl"]) != gen {
                            t.mismatch("C01", "is_legal-disagrees-with-generator", &case, json!(gen.clone()), p["isl"].clone());
                        }
                        for k in ["acc_new", "acc_mut", "acc_into"] {
                            if codes_of(&p[k]) != gen {
                                t.mismatch("C02", &format!("{k}-disagrees-with-generator"), &case, json!(gen.clone()), p[k].clone());
                            }
                        }
                        if p["touched"] != json!(0) {
                            t.mismatch("C02", "refusal-touched-board", &case, json!(0), p["touched"].clone());
                        }
                    }
                    let tags = classify_pos(&board, &codes_of(&a["legals"]));
                    if !tags.is_empty() {
                        t.nontrivial.insert(text.clone());
                    }
                    t.distinct.insert(text);
                }
            }
            if t.mismatches > 50 {
                break;
            }
        }
    }
    t.summary(json!({}));
    0
}
