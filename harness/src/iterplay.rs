//! Move-iterator scenarios (C10): drive `MoveGen` through operation sequences and record one
//! event per public call (validated by spec/MoveIterTrace.tla).
//!
//! Two history classes are recorded as known findings (KNOWN_FINDINGS.txt) and are kept out of
//! the generated histories so that every *other* violation is still reported:
//!   K1  a mutating call (set_mask / remove / remove_move) while a promotion destination is
//!       partially yielded, unless the call leaves that destination the first one the iterator
//!       meets among the promotions (then the promotion cursor still belongs to it and the
//!       contract is demanded; decided by trying the call on a clone and iterating the clone up to
//!       its first promotion move);
//!   K2  remove_move of a promotion move.
//! The drivers track "partially yielded" on the abstract level (which promotion moves of a
//! (from,to) group were yielded), not by looking into the iterator.

use crate::proj::*;
use crate::util::*;
use chess_bitboard::{BitBoard, Color};
use chess_movegen::{Board, MoveGen};
use rand::seq::SliceRandom;
use rand::Rng;
use serde_json::{json, Value};
use std::collections::HashSet;
use std::io::Write;

pub fn bb_of(sqs: &[u8]) -> BitBoard {
    let mut x = 0u64;
    for &s in sqs {
        x |= 1u64 << s;
    }
    BitBoard::from_u64(x)
}

#[derive(Clone, Debug)]
pub enum Op {
    Next,
    SetMask(Vec<u8>),
    Remove(Vec<u8>),
    RemoveMove(u32),
    Clone,
    Count,
}

struct Inst {
    id: u64,
    gen: MoveGen,
    all: Vec<u32>,          // fresh full iteration of the position
    yielded: HashSet<u32>,  // abstract bookkeeping for K1
    removed_dest: HashSet<u8>,
    removed_mv: HashSet<u32>,
    gen_mask: Option<Vec<u8>>, // Some(M) if created by legals_masked(M)
    mask: Vec<u8>,
    done: bool,
}

impl Inst {
    /// some promotion group is partially yielded and could still yield under the current state
    fn mid_promotion(&self) -> bool {
        for &c in &self.yielded {
            if c % 5 == 0 {
                continue;
            }
            let base = c - c % 5;
            let dest = ((c % 320) / 5) as u8;
            let left = (1..=4).filter(|k| !self.yielded.contains(&(base + k))).count();
            if left > 0 && !self.removed_dest.contains(&dest) {
                return true;
            }
        }
        false
    }
}

impl Inst {
    /// the (source, destination, pieces yielded) of the promotion destination in progress
    fn group_in_progress(&self) -> Option<(u8, u8, usize)> {
        for &c in &self.yielded {
            if c % 5 == 0 {
                continue;
            }
            let base = c - c % 5;
            let dest = ((c % 320) / 5) as u8;
            let done = (1..=4).filter(|k| self.yielded.contains(&(base + k))).count();
            if done < 4 && !self.removed_dest.contains(&dest) {
                return Some(((c / 320) as u8, dest, done));
            }
        }
        None
    }

    /// would this mutating call keep the promotion cursor on its destination?  (K1 is the class of
    /// calls for which it would not.)  The call is tried on a clone and the clone is iterated up to
    /// its first promotion move: the cursor is still on its destination iff that move belongs to
    /// the destination in progress.  (Nothing is assumed about the order in which the iterator
    /// visits entries or destinations.)
    fn keeps_cursor(&self, op: &Op) -> bool {
        let Some((src, dest, _done)) = self.group_in_progress() else { return true };
        let mut g = self.gen.clone();
        match op {
            Op::SetMask(m) => {
                let m: Vec<u8> = match &self.gen_mask {
                    Some(gm) => m.iter().copied().filter(|s| gm.contains(s)).collect(),
                    None => m.clone(),
                };
                g.set_mask(bb_of(&m));
            }
            Op::Remove(m) => g.remove(bb_of(m)),
            Op::RemoveMove(c) => {
                if c % 5 != 0 {
                    return false;
                }
                g.remove_move(decode(*c));
            }
            _ => return true,
        }
        for _ in 0..300 {
            match g.next() {
                None => return false,
                Some(m) if m.piece.is_some() => return m.source.to_u8() == src && m.dest.to_u8() == dest,
                Some(_) => {}
            }
        }
        false
    }
}

pub struct Recorder {
    out: std::io::BufWriter<std::fs::File>,
    pub events: u64,
    next_id: u64,
    pub avoided: u64,
    /// mutating calls made while a promotion destination was partially yielded (outside K1)
    pub mid_promotion_calls: u64,
    /// keep out of the two known-finding classes (default); when false the histories are
    /// unrestricted - used to look for panics inside those classes, where wrong answers are known
    pub avoid: bool,
    /// also log the implementation's own entry list / cursor (through the hooks) for the layer-S conformance check
    pub sys: bool,
}

impl Recorder {
    pub fn new(path: &str) -> Self {
        Recorder {
            out: std::io::BufWriter::new(std::fs::File::create(path).expect("create trace")),
            events: 0,
            next_id: 1,
            avoided: 0,
            mid_promotion_calls: 0,
            avoid: true,
            sys: false,
        }
    }
    fn emit(&mut self, v: Value) {
        writeln!(self.out, "{v}").unwrap();
        self.events += 1;
    }
    pub fn finish(&mut self) {
        self.out.flush().unwrap();
    }

    fn new_inst(&mut self, board: &Board, gen_mask: Option<Vec<u8>>) -> Inst {
        let all: Vec<u32> = board.legals().map(code).collect();
        let id = self.next_id;
        self.next_id += 1;
        let gen = match &gen_mask {
            None => board.legals(),
            Some(m) => board.legals_masked(bb_of(m)),
        };
        let mask: Vec<u8> = gen_mask.clone().unwrap_or_else(|| (0..64).collect());
        let mut ev = json!({"ev": "it_new", "id": id, "fen": board.to_string(), "all": all,
                            "masked": gen_mask.is_some(), "mask": mask});
        if self.sys {
            ev["sys"] = Self::sys_json(&gen);
        }
        self.emit(ev);
        Inst { id, gen, all, yielded: HashSet::new(), removed_dest: HashSet::new(), removed_mv: HashSet::new(), gen_mask, mask, done: false }
    }

    fn sys_json(gen: &MoveGen) -> Value {
        let entries: Vec<Value> = gen.verif_entries().iter().map(|(s, d, p)| json!([s.to_u8(), bb_list(*d), p])).collect();
        let (idx, left, mask) = gen.verif_cursor();
        json!({"entries": entries, "idx": idx, "left": left, "mask": bb_list(mask)})
    }

    fn log_len(&mut self, it: &Inst) {
        let (lo, hi) = it.gen.size_hint();
        let len = it.gen.len();
        let empty = it.gen.is_empty();
        let mut ev = json!({"ev": "it_len", "id": it.id, "len": len, "empty": empty, "lo": lo,
                            "hi": hi.map_or(-1i64, |h| h as i64)});
        if self.sys {
            ev["sys"] = Self::sys_json(&it.gen);
        }
        self.emit(ev);
    }

    fn do_next(&mut self, it: &mut Inst) -> Option<u32> {
        let r = it.gen.next().map(code);
        if let Some(c) = r {
            it.yielded.insert(c);
        }
        self.emit(json!({"ev": "it_next", "id": it.id, "res": r.map_or(-1i64, |c| c as i64)}));
        r
    }

    /// apply one operation (keeping out of the known-finding classes), then log len/is_empty/hint
    fn apply(&mut self, it: &mut Inst, op: &Op, clones: &mut Vec<Inst>) {
        let mutating = matches!(op, Op::SetMask(_) | Op::Remove(_) | Op::RemoveMove(_));
        if mutating && self.avoid && it.mid_promotion() && it.keeps_cursor(op) {
            // in the middle of a promotion destination, but outside K1
            self.mid_promotion_calls += 1;
        } else if mutating && self.avoid {
            // K1: finish the promotion destination in progress first
            let mut guard = 0;
            while it.mid_promotion() && guard < 8 {
                self.avoided += 1;
                if self.do_next(it).is_none() {
                    break;
                }
                guard += 1;
            }
        }
        match op {
            Op::Next => {
                self.do_next(it);
            }
            Op::SetMask(m) => {
                // an iterator generated under a mask is only ever narrowed (the property is silent
                // about widening it beyond the generation mask)
                let m: Vec<u8> = match &it.gen_mask {
                    Some(g) => m.iter().copied().filter(|s| g.contains(s)).collect(),
                    None => m.clone(),
                };
                it.gen.set_mask(bb_of(&m));
                it.mask = m.clone();
                self.emit(json!({"ev": "it_set_mask", "id": it.id, "mask": m}));
            }
            Op::Remove(m) => {
                it.gen.remove(bb_of(m));
                for &s in m {
                    it.removed_dest.insert(s);
                }
                self.emit(json!({"ev": "it_remove", "id": it.id, "mask": m}));
            }
            Op::RemoveMove(c) => {
                if c % 5 != 0 && self.avoid {
                    // K2: remove_move of a promotion move
                    self.avoided += 1;
                } else {
                    let r = it.gen.remove_move(decode(*c));
                    it.removed_mv.insert(*c);
                    self.emit(json!({"ev": "it_remove_move", "id": it.id, "mv": c, "res": r}));
                }
            }
            Op::Clone => {
                let id = self.next_id;
                self.next_id += 1;
                let cl = Inst { id, gen: it.gen.clone(), all: it.all.clone(), yielded: it.yielded.clone(),
                                removed_dest: it.removed_dest.clone(), removed_mv: it.removed_mv.clone(),
                                gen_mask: it.gen_mask.clone(), mask: it.mask.clone(), done: false };
                self.emit(json!({"ev": "it_clone", "id": it.id, "new": id}));
                clones.push(cl);
            }
            Op::Count => {
                let n = it.gen.clone().count();
                self.emit(json!({"ev": "it_count", "id": it.id, "n": n}));
            }
        }
        self.log_len(it);
    }

    /// drain under the current mask, then under the complement (if unrestricted), logging everything
    fn drain(&mut self, it: &mut Inst, widen: bool) {
        let mut guard = 0;
        loop {
            let r = self.do_next(it);
            self.log_len(it);
            guard += 1;
            if r.is_none() || guard > 300 {
                break;
            }
        }
        if widen && it.gen_mask.is_none() && !it.mid_promotion() {
            it.gen.set_mask(bb_of(&(0..64).collect::<Vec<u8>>()));
            self.emit(json!({"ev": "it_set_mask", "id": it.id, "mask": (0..64).collect::<Vec<u8>>()}));
            self.log_len(it);
            let mut guard = 0;
            loop {
                let r = self.do_next(it);
                guard += 1;
                if r.is_none() || guard > 300 {
                    break;
                }
            }
            self.log_len(it);
        }
        it.done = true;
    }

    pub fn run_sequence(&mut self, board: &Board, gen_mask: Option<Vec<u8>>, ops: &[Op]) {
        let mut it = self.new_inst(board, gen_mask);
        self.log_len(&it);
        let mut clones = vec![];
        for op in ops {
            self.apply(&mut it, op, &mut clones);
        }
        self.drain(&mut it, true);
        // clones are independent iterators: drained under the mask they were cloned with and then,
        // like the original, under the full mask (what the clone still owes must all come out)
        for mut c in clones {
            self.drain(&mut c, true);
        }
    }
}

/// masks derived from the position: all, enemy pieces, empty squares, halves, single destinations
pub fn mask_alphabet(board: &Board, legals: &[u32], rng: &mut impl Rng, singles: usize) -> Vec<Vec<u8>> {
    let enemy = bb_list(board.raw()[if board.turn() == Color::White { Color::Black } else { Color::White }]);
    let occupied = bb_list(board.raw().all());
    let empty: Vec<u8> = (0..64u8).filter(|s| !occupied.contains(s)).collect();
    let mut v = vec![
        (0..64u8).collect::<Vec<u8>>(),
        enemy.clone(),
        (0..64u8).filter(|s| !enemy.contains(s)).collect(),
        empty,
        (0..32u8).collect(),
        (32..64u8).collect(),
        (0..64u8).filter(|s| s % 8 < 4).collect(),
        (0..64u8).filter(|s| s % 8 >= 4).collect(),
        vec![],
    ];
    let mut dests: Vec<u8> = legals.iter().map(|c| ((c % 320) / 5) as u8).collect();
    dests.sort();
    dests.dedup();
    dests.shuffle(rng);
    for d in dests.iter().take(singles) {
        v.push(vec![*d]);
        v.push((0..64u8).filter(|s| s != d).collect());
    }
    v
}

pub fn op_alphabet(board: &Board, rng: &mut impl Rng, singles: usize, moves: usize) -> Vec<Op> {
    let legals = legal_codes(board);
    let masks = mask_alphabet(board, &legals, rng, singles);
    let mut ops = vec![Op::Next, Op::Clone, Op::Count];
    for m in &masks {
        ops.push(Op::SetMask(m.clone()));
    }
    for m in masks.iter().skip(1).step_by(2) {
        ops.push(Op::Remove(m.clone()));
    }
    let mut mv: Vec<u32> = legals.iter().copied().collect();
    mv.shuffle(rng);
    for c in mv.iter().take(moves) {
        ops.push(Op::RemoveMove(*c));
    }
    // a move that is not legal here (same source as a legal move, other destination)
    if let Some(&c) = mv.first() {
        ops.push(Op::RemoveMove(c / 320 * 320 + ((c % 320) / 5 + 9) % 64 * 5));
    }
    ops
}

/// positions: roots with the given tags plus positions reached from them by short seeded walks
pub fn positions(roots: &Value, tags: &str, seed: u64, extra_walk: u64) -> Vec<Board> {
    let mut v = vec![];
    let mut rng = rng(seed, 77);
    for r in roots.as_array().unwrap() {
        let hit = tags.is_empty() || r["tags"].as_array().unwrap().iter().any(|x| tags.split(',').any(|s| x == s));
        if !hit {
            continue;
        }
        let Ok(b) = r["fen"].as_str().unwrap().parse::<Board>() else { continue };
        v.push(b);
        let mut cur = b;
        for _ in 0..extra_walk {
            if !has_both_kings(&cur) {
                break;
            }
            let l = legal_codes(&cur);
            if l.is_empty() {
                break;
            }
            let c = *l.choose(&mut rng).unwrap();
            match cur.move_new(decode(c)) {
                Some(n) => cur = n,
                None => break,
            }
            if has_both_kings(&cur) {
                v.push(cur);
            }
        }
    }
    v
}

pub fn record_iter(opts: &Opts) -> i32 {
    let roots = read_json_file(&opts.str("roots", &crate::util::default_roots()));
    let seed = opts.num("seed", 1);
    let shard = opts.num("shard", 0);
    let shards = opts.num("shards", 1);
    let mode = opts.str("mode", "systematic");
    let budget = opts.num("events", 20000);
    let depth = opts.num("depth", 3) as usize;
    let tags = opts.str("tags", "promo,ep");
    let mut rec = Recorder::new(&opts.str("out", "iter.ndjson"));
    rec.avoid = !opts.flag("no-avoid");
    rec.sys = opts.flag("sys");
    let mut rng = rng(seed, 500 + shard);
    let pos = positions(&roots, &tags, seed, opts.num("walk", 2));
    let mine: Vec<&Board> = pos.iter().enumerate().filter(|(i, _)| (*i as u64) % shards == shard).map(|(_, b)| b).collect();
    let mut seqs = 0u64;
    let per_pos = (budget / (mine.len().max(1) as u64)).max(200);
    'outer: for round in 0..1000 {
        for b in &mine {
            if rec.events >= budget {
                break 'outer;
            }
            // spread the event budget over the positions: each gets a share per round
            let stop_at = rec.events + per_pos;
            if !has_both_kings(b) || legal_codes(b).is_empty() {
                continue;
            }
            op!("record-iter mode={mode} seed={seed} shard={shard} board={b}");
            let ops = op_alphabet(b, &mut rng, 3, 3);
            match mode.as_str() {
                "systematic" => {
                    // all sequences of length <= 2 over the alphabet in round 0, then seeded
                    // sequences of the requested depth
                    if round == 0 {
                        for a in &ops {
                            rec.run_sequence(b, None, &[a.clone()]);
                            seqs += 1;
                            if rec.events >= stop_at {
                                break;
                            }
                        }
                        for a in &ops {
                            for c in &ops {
                                if rng.gen_range(0..4) == 0 || matches!(a, Op::Next) || matches!(c, Op::Next) {
                                    rec.run_sequence(b, None, &[a.clone(), c.clone()]);
                                    seqs += 1;
                                }
                            }
                            if rec.events >= stop_at {
                                break;
                            }
                        }
                    } else {
                        let n = rng.gen_range(2..=depth.max(2));
                        let s: Vec<Op> = (0..n).map(|_| ops.choose(&mut rng).unwrap().clone()).collect();
                        rec.run_sequence(b, None, &s);
                        seqs += 1;
                    }
                }
                "masked" => {
                    // generation restricted to a mask, then narrowed
                    let legals = legal_codes(b);
                    let masks = mask_alphabet(b, &legals, &mut rng, 3);
                    for m in &masks {
                        let n = rng.gen_range(0..=depth);
                        let s: Vec<Op> = (0..n).map(|_| ops.choose(&mut rng).unwrap().clone()).collect();
                        rec.run_sequence(b, Some(m.clone()), &s);
                        seqs += 1;
                    }
                }
                "engine" => {
                    // the search's staged pattern: remove the previous best move, captures first, then the rest
                    let legals = legal_codes(b);
                    let enemy = bb_list(b.raw()[if b.turn() == Color::White { Color::Black } else { Color::White }]);
                    for &best in legals.iter().filter(|c| *c % 5 == 0).take(6) {
                        let mut it = rec.new_inst(b, None);
                        let mut cl = vec![];
                        rec.apply(&mut it, &Op::RemoveMove(best), &mut cl);
                        rec.apply(&mut it, &Op::SetMask(enemy.clone()), &mut cl);
                        rec.drain(&mut it, true);
                        seqs += 1;
                    }
                }
                _ => {
                    // long random sequences
                    let n = rng.gen_range(5..40);
                    let s: Vec<Op> = (0..n)
                        .map(|_| if rng.gen_bool(0.5) { Op::Next } else { ops.choose(&mut rng).unwrap().clone() })
                        .collect();
                    rec.run_sequence(b, None, &s);
                    seqs += 1;
                }
            }
        }
    }
    rec.finish();
    out_line("SUMMARY", &json!({"counts": {"events": rec.events, "sequences": seqs, "positions": mine.len(),
                                           "avoided_known_class": rec.avoided, "mutations_mid_promotion": rec.mid_promotion_calls},
                                "distinct": mine.len(), "nontrivial": seqs, "mismatches": 0, "samples": [], "extra": {}}));
    0
}

/// replay one explicit history (used for the recorded known findings and for `vcheck --replay`):
/// {"fen":..., "gen_mask": null|[..], "ops":[["next"],["set_mask",[..]],["remove",[..]],["remove_move",code],["clone"],["count"]], "drain": true}
/// This path does NOT avoid the known classes.
pub fn replay_iter(opts: &Opts) -> i32 {
    let spec = read_json_file(&opts.str("case", "case.json"));
    let mut rec = Recorder::new(&opts.str("out", "iter.ndjson"));
    let board: Board = match spec["fen"].as_str().unwrap_or("").parse() {
        Ok(b) => b,
        Err(e) => {
            eprintln!("bad fen in case: {e:?}");
            return 2;
        }
    };
    let gm = spec["gen_mask"].as_array().map(|a| a.iter().map(|x| x.as_u64().unwrap() as u8).collect::<Vec<u8>>());
    let mut it = rec.new_inst(&board, gm);
    rec.log_len(&it);
    for o in spec["ops"].as_array().unwrap() {
        let name = o[0].as_str().unwrap_or("");
        let sqs = |v: &Value| v.as_array().map(|a| a.iter().map(|x| x.as_u64().unwrap() as u8).collect::<Vec<u8>>()).unwrap_or_default();
        match name {
            "next" => {
                rec.do_next(&mut it);
            }
            "set_mask" => {
                let m = sqs(&o[1]);
                it.gen.set_mask(bb_of(&m));
                rec.emit(json!({"ev": "it_set_mask", "id": it.id, "mask": m}));
            }
            "remove" => {
                let m = sqs(&o[1]);
                it.gen.remove(bb_of(&m));
                rec.emit(json!({"ev": "it_remove", "id": it.id, "mask": m}));
            }
            "remove_move" => {
                let c = o[1].as_u64().unwrap() as u32;
                let r = it.gen.remove_move(decode(c));
                rec.emit(json!({"ev": "it_remove_move", "id": it.id, "mv": c, "res": r}));
            }
            "drain" => {
                let mut guard = 0;
                while rec.do_next(&mut it).is_some() && guard < 300 {
                    guard += 1;
                }
            }
            _ => {}
        }
        rec.log_len(&it);
    }
    rec.finish();
    out_line("SUMMARY", &json!({"counts": {"events": rec.events}, "distinct": 1, "nontrivial": 1, "mismatches": 0, "samples": [], "extra": {}}));
    0
}
