//! Plugin scenarios (C15, C16): the stable-ABI conversions and the bot driven through the real
//! cdylib loaded with chess_api::ChessApiRef::load_from_file.

use crate::engineplay::score_json;
use crate::proj::*;
use crate::util::*;
use chess_api::{EvaluatedMove, StableChessMove};
use chess_engine::Score;
use chess_movegen::{Board, ChessMove};
use rand::seq::SliceRandom;
use rand::Rng;
use serde_json::{json, Value};
use std::io::Write;

pub fn record_abi(opts: &Opts) -> i32 {
    let seed = opts.num("seed", 1);
    let stride = opts.num("mate-stride", 1).max(1) as u32;
    let mut rng = rng(seed, 1616);
    let mut out = std::io::BufWriter::new(std::fs::File::create(opts.str("out", "abi.ndjson")).unwrap());
    let mut n = 0u64;
    // all 20480 moves, through both mirrors
    for from in 0..64u32 {
        let rows: Vec<Value> = (0..320u32)
            .map(|i| {
                let c = from * 320 + i;
                let m = decode(c);
                let back1 = code(ChessMove::from(StableChessMove::from(m)));
                let ev = EvaluatedMove::new(Some(m), Score::Raw(c as i32));
                let back2 = ev.chess_move().map_or(-1i64, |x| code(x) as i64);
                n += 2;
                json!([c, back1, back2])
            })
            .collect();
        writeln!(out, "{}", json!({"ev": "moves", "from": from, "rows": rows})).unwrap();
    }
    // the absent move, with every kind of score
    let mut ok = true;
    for s in [Score::Min, Score::Max, Score::Raw(0), Score::Raw(-1), Score::WhiteMateIn(1), Score::BlackMateIn(65535)] {
        let ev = EvaluatedMove::new(None, s);
        ok &= ev.chess_move().is_none() && ev.score() == s;
        n += 1;
    }
    writeln!(out, "{}", json!({"ev": "absent", "back": EvaluatedMove::new(None, Score::Min).chess_move().map_or(-1i64, |x| code(x) as i64),
                               "back_with_scores": ok})).unwrap();
    // a present move together with every kind of score (the two halves of the pair must not influence
    // each other): a seventh of all moves (another seventh every seed) x sentinel, numeric and mate scores
    for s in [Score::Min, Score::Max, Score::Raw(0), Score::Raw(i32::MIN), Score::Raw(i32::MAX), Score::WhiteMateIn(0),
              Score::WhiteMateIn(65535), Score::BlackMateIn(0), Score::BlackMateIn(1)] {
        let rows: Vec<Value> = (0..20480u32).filter(|c| c % 7 == (seed as u32) % 7).map(|c| {
            let ev = EvaluatedMove::new(Some(decode(c)), s);
            n += 1;
            json!([c, ev.chess_move().map_or(-1i64, |x| code(x) as i64), score_json(ev.score())])
        }).collect();
        writeln!(out, "{}", json!({"ev": "pairs", "score": score_json(s), "rows": rows})).unwrap();
    }
    // mate distances: all 2 x 65536 (or a stride plus the edges)
    for (kind, mk) in [("wm", Score::WhiteMateIn as fn(u16) -> Score), ("bm", Score::BlackMateIn as fn(u16) -> Score)] {
        let mut start = 0u32;
        while start < 65536 {
            let len = 4096.min(65536 - start);
            let edge = start == 0 || start + len >= 65536;
            if edge || (start / 4096) % stride == (seed as u32) % stride {
                let back: Vec<Value> = (start..start + len).map(|d| {
                    n += 1;
                    score_json(EvaluatedMove::new(None, mk(d as u16)).score())
                }).collect();
                writeln!(out, "{}", json!({"ev": "mates", "kind": kind, "start": start, "back": back})).unwrap();
            }
            start += len;
        }
    }
    // numeric scores: extremes, around zero, seeded
    let mut raws: Vec<i32> = vec![i32::MIN, i32::MIN + 1, i32::MAX, i32::MAX - 1];
    raws.extend(-300..=300);
    for _ in 0..opts.num("random", 2000) {
        raws.push(rng.gen());
    }
    let rows: Vec<Value> = raws.iter().map(|&x| {
        n += 1;
        json!([x, score_json(EvaluatedMove::new(Some(decode((x as u32) % 20480)), Score::Raw(x)).score())])
    }).collect();
    writeln!(out, "{}", json!({"ev": "raws", "rows": rows})).unwrap();
    writeln!(out, "{}", json!({"ev": "sentinels", "min": score_json(EvaluatedMove::new(None, Score::Min).score()),
                               "max": score_json(EvaluatedMove::new(None, Score::Max).score())})).unwrap();
    out.flush().unwrap();
    out_line("SUMMARY", &json!({"counts": {"conversions": n}, "distinct": n, "nontrivial": n, "mismatches": 0, "samples": [], "extra": {}}));
    0
}


// ------------------------------------------------------------------------------------------------
// C15: the bot plugin through its stable interface (validated by spec/BotTrace.tla)
// ------------------------------------------------------------------------------------------------

fn plugin_path() -> std::path::PathBuf {
    // the cdylib is built as a by-product of the harness build (chess-bot has crate-type cdylib)
    let exe = std::env::current_exe().expect("current_exe");
    exe.parent().unwrap().join("deps").join("libchess_bot.so")
}

pub fn record_bot(opts: &Opts) -> i32 {
    use crate::engineplay::CountingTimeout;
    let roots = read_json_file(&opts.str("roots", &crate::util::default_roots()));
    let seed = opts.num("seed", 1);
    let shard = opts.num("shard", 0);
    let budget = opts.num("events", 3000);
    let mode = opts.str("mode", "shuffle");
    let tags = opts.str("tags", "");
    let mut out = std::io::BufWriter::new(std::fs::File::create(opts.str("out", "bot.ndjson")).unwrap());
    let mut rng = rng(seed, 1500 + shard);
    set_pending_file(Some(format!("{}.pending", opts.str("out", "bot.ndjson"))));
    let path = plugin_path();
    let api = match chess_api::ChessApiRef::load_from_file(&path) {
        Ok(a) => a,
        Err(e) => {
            eprintln!("cannot load plugin {path:?}: {e}");
            return 2;
        }
    };
    if mode == "match" {
        return record_match(opts, &api, &roots);
    }
    let mut engine = api.new_engine();
    // the move the plugin proposed last, and whether the board was set since (a client may submit a
    // proposal made for another position)
    let mut last_prop: Option<ChessMove> = None;
    let mut after_set = false;
    let sel: Vec<&Value> = roots.as_array().unwrap().iter()
        .filter(|r| tags.is_empty() || r["tags"].as_array().unwrap().iter().any(|x| tags.split(',').any(|s| x == s)))
        .collect();
    let mut events = 0u64;
    let mut flags = 0u64;
    let mut calls = 0u64;
    let mut w = 0u64;
    // the very first observation: a fresh engine holds the standard position
    writeln!(out, "{}", json!({"ev": "fresh", "board": pos_json(&engine.board())})).unwrap();
    events += 1;
    while events < budget {
        let r = sel[((w + shard * 7) as usize) % sel.len()];
        w += 1;
        let fen = r["fen"].as_str().unwrap();
        let Ok(root) = fen.parse::<Board>() else { continue };
        op!("record-bot set_board {fen}");
        engine.set_board(root);
        after_set = true;
        writeln!(out, "{}", json!({"ev": "set_board", "arg": pos_json(&root), "board": pos_json(&engine.board())})).unwrap();
        events += 1;
        if mode != "long" && rng.gen_range(0..2) == 0 {
            // a proposal asked for in the very position that was set (nothing may be counted for it): the
            // shuffles that follow come back to this position
            let k = rng.gen_range(0..80);
            op!("record-bot evaluate k={k} right after set_board on {}", engine.board());
            let t = CountingTimeout::at(k);
            let (mv, sc) = engine.evaluate(&t);
            if mv.is_some() {
                last_prop = mv;
            }
            calls += 1;
            writeln!(out, "{}", json!({"ev": "evaluate", "k": k, "mv": mv.map_or(-1i64, |m| code(m) as i64), "score": score_json(sc),
                                       "board": pos_json(&engine.board())})).unwrap();
            events += 1;
        }
        let mut prev: Vec<ChessMove> = vec![];
        let plies = if mode == "long" { 1100 } else { rng.gen_range(20..120) };
        for ply in 0..plies {
            let board = engine.board();
            if !has_both_kings(&board) {
                break;
            }
            let legals = legal_codes(&board);
            if legals.is_empty() {
                break;
            }
            // choose a move: an illegal attempt, the inverse of an earlier move (to repeat
            // positions), a quiet piece move, or any legal move
            let roll = rng.gen_range(0..100);
            let stale = mode != "long" && last_prop.is_some() && ((after_set && rng.gen_bool(0.5)) || roll < 2);
            after_set = false;
            let c = if stale {
                code(last_prop.unwrap())
            } else if mode != "long" && roll < 8 {
                rng.gen_range(0..20480u32)
            } else if mode == "long" {
                // knights out and back: g1f3 g8f6 f3g1 f6g8 ... (the same four plies for ever)
                let cyc = ["g1f3", "g8f6", "f3g1", "f6g8"];
                let m: ChessMove = cyc[(ply % 4) as usize].parse().unwrap();
                code(m)
            } else if roll < 55 && prev.len() >= 2 {
                // undo my own previous move (two plies ago) if that is legal now
                let p = prev[prev.len() - 2];
                let inv = ChessMove { source: p.dest, dest: p.source, piece: None };
                if legals.contains(&code(inv)) { code(inv) } else { *legals.choose(&mut rng).unwrap() }
            } else if roll < 85 {
                let quiet: Vec<u32> = legals.iter().copied().filter(|&c| {
                    let m = decode(c);
                    board.raw().get(m.dest).is_none() && !matches!(board.raw().get(m.source), Some((_, chess_bitboard::Piece::Pawn)))
                }).collect();
                if quiet.is_empty() { *legals.choose(&mut rng).unwrap() } else { *quiet.choose(&mut rng).unwrap() }
            } else {
                *legals.choose(&mut rng).unwrap()
            };
            op!("record-bot make_move {c} on {board} (ply {ply})");
            let res = engine.make_move(decode(c));
            calls += 1;
            if res.is_valid {
                prev.push(decode(c));
            }
            if res.is_three_fold_draw {
                flags += 1;
            }
            writeln!(out, "{}", json!({"ev": "make_move", "mv": c, "valid": res.is_valid, "flag": res.is_three_fold_draw,
                                       "board": pos_json(&engine.board())})).unwrap();
            // the plugin aborts the process if it panics (FFI boundary): keep the trace on disk
            out.flush().unwrap();
            events += 1;
            let mut after_eval = false;
            if mode != "long" && rng.gen_range(0..40) == 0 {
                after_eval = true;
                // evaluate under a counting limit: the proposal must be legal, the board unchanged
                let k = rng.gen_range(0..400);
                op!("record-bot evaluate k={k} on {}", engine.board());
                let t = CountingTimeout::at(k);
                let (mv, sc) = engine.evaluate(&t);
                if mv.is_some() {
                    last_prop = mv;
                }
                calls += 1;
                writeln!(out, "{}", json!({"ev": "evaluate", "k": k, "mv": mv.map_or(-1i64, |m| code(m) as i64), "score": score_json(sc),
                                           "board": pos_json(&engine.board())})).unwrap();
                events += 1;
            }
            if mode == "long" && (ply % 100 == 99 || ply + 1 == plies) {
                // a search on top of a long history: every position of the cycle has been counted
                // ply/4 times by now (beyond the 255 a u8 counter can hold near the end)
                op!("record-bot evaluate after {ply} plies of shuffling on {}", engine.board());
                let t = CountingTimeout::at(200);
                let (mv, sc) = engine.evaluate(&t);
                calls += 1;
                writeln!(out, "{}", json!({"ev": "evaluate", "k": 200, "mv": mv.map_or(-1i64, |m| code(m) as i64), "score": score_json(sc),
                                           "board": pos_json(&engine.board())})).unwrap();
                events += 1;
            }
            if mode != "long" && after_eval && rng.gen_range(0..3) == 0 {
                // a client that asks for a proposal, then sets up another position and submits the
                // proposal there: it must be judged in the position the plugin now holds
                let r2 = sel[rng.gen_range(0..sel.len())];
                if let (Ok(other), Some(mv)) = (r2["fen"].as_str().unwrap().parse::<Board>(), last_prop) {
                    op!("record-bot set_board (another position after a proposal) {other}");
                    engine.set_board(other);
                    prev.clear();
                    writeln!(out, "{}", json!({"ev": "set_board", "arg": pos_json(&other), "board": pos_json(&engine.board())})).unwrap();
                    op!("record-bot make_move {mv} (proposed for another position) on {other}");
                    let res = engine.make_move(mv);
                    calls += 1;
                    if res.is_valid {
                        prev.push(mv);
                    }
                    writeln!(out, "{}", json!({"ev": "make_move", "mv": code(mv), "valid": res.is_valid, "flag": res.is_three_fold_draw,
                                               "board": pos_json(&engine.board())})).unwrap();
                    out.flush().unwrap();
                    events += 2;
                }
            }
            if mode != "long" && rng.gen_range(0..30) == 0 {
                // set the board again in the middle of a history: to the very position the plugin
                // is in, or to the same position with other clocks (the history must be forgotten
                // and the given board installed either way)
                let cur = engine.board();
                let arg = if rng.gen_bool(0.5) {
                    cur
                } else {
                    let text = cur.to_string();
                    let mut f: Vec<&str> = text.split(' ').collect();
                    let hm = rng.gen_range(0..90).to_string();
                    let fm = rng.gen_range(1..200).to_string();
                    f[4] = &hm;
                    f[5] = &fm;
                    f.join(" ").parse::<Board>().unwrap_or(cur)
                };
                op!("record-bot set_board (again) {arg}");
                engine.set_board(arg);
                after_set = true;
                prev.clear();
                writeln!(out, "{}", json!({"ev": "set_board", "arg": pos_json(&arg), "board": pos_json(&engine.board())})).unwrap();
                events += 1;
            }
            if mode != "long" && rng.gen_range(0..150) == 0 {
                break;
            }
            if events >= budget {
                break;
            }
        }
        if mode == "long" {
            break;
        }
    }
    out.flush().unwrap();
    op!("done");
    out_line("SUMMARY", &json!({"counts": {"events": events, "calls": calls, "flags_raised": flags}, "distinct": calls, "nontrivial": flags,
                                "mismatches": 0, "samples": [], "extra": {}}));
    0
}

/// The tournament game loop of chess-cli (bot_fight.rs), transcribed: two plugin instances, one per
/// player; the instance whose colour is to move proposes, the move is submitted to both, the game
/// ends on the threefold flag, on "no move proposed", or on what Board::state() says.  The proposals
/// come from the engine under a counting limit, so the positions are those of real engine play
/// (mates, promotions, endgames) rather than of random walks.  One `result` event per ply records
/// the loop's verdict ("running" while the game goes on).
fn record_match(opts: &Opts, api: &chess_api::ChessApiRef, roots: &Value) -> i32 {
    use crate::engineplay::CountingTimeout;
    use chess_bitboard::Color;
    use chess_movegen::GameState;
    let seed = opts.num("seed", 1);
    let shard = opts.num("shard", 0);
    let budget = opts.num("events", 3000);
    let kmax = opts.num("kmax", 1500);
    let tags = opts.str("tags", "std");
    let mut out = std::io::BufWriter::new(std::fs::File::create(opts.str("out", "match.ndjson")).unwrap());
    let mut rng = rng(seed, 1700 + shard);
    let sel: Vec<&Value> = roots.as_array().unwrap().iter()
        .filter(|r| tags.is_empty() || r["tags"].as_array().unwrap().iter().any(|x| tags.split(',').any(|s| x == s)))
        .collect();
    let (mut events, mut calls, mut flags, mut games, mut mates, mut draws) = (0u64, 0u64, 0u64, 0u64, 0u64, 0u64);
    let mut g = 0u64;
    while events < budget {
        let r = sel[((g + shard * 5) as usize) % sel.len()];
        g += 1;
        let fen = r["fen"].as_str().unwrap();
        let Ok(root) = fen.parse::<Board>() else { continue };
        let mut a = api.new_engine();
        let mut b = api.new_engine();
        for (id, e) in [(0, &a), (1, &b)] {
            writeln!(out, "{}", json!({"ev": "fresh", "id": id, "board": pos_json(&e.board())})).unwrap();
        }
        op!("record-match set_board {fen}");
        a.set_board(root);
        b.set_board(root);
        for (id, e) in [(0, &a), (1, &b)] {
            writeln!(out, "{}", json!({"ev": "set_board", "id": id, "arg": pos_json(&root), "board": pos_json(&e.board())})).unwrap();
        }
        events += 4;
        games += 1;
        // a few random opening plies so that games from the same root differ
        let opening = rng.gen_range(0..6);
        let mut ply = 0u32;
        loop {
            let turn = a.board().turn();
            let id = if turn == Color::White { 0 } else { 1 };
            let opening_choice = if ply < opening { legal_codes(&a.board()).choose(&mut rng).map(|&c| decode(c)) } else { None };
            let proposal = if opening_choice.is_some() {
                opening_choice
            } else {
                // mostly a limit that lets a few passes finish; now and then one that may expire at once
                let k = if rng.gen_range(0..200) == 0 { rng.gen_range(0..40) } else { rng.gen_range(kmax / 10..kmax) };
                op!("record-match evaluate id={id} k={k} on {}", a.board());
                let t = CountingTimeout::at(k);
                let (mv, sc) = if id == 0 { a.evaluate(&t) } else { b.evaluate(&t) };
                calls += 1;
                let bd = if id == 0 { a.board() } else { b.board() };
                writeln!(out, "{}", json!({"ev": "evaluate", "id": id, "k": k, "mv": mv.map_or(-1i64, |m| code(m) as i64), "score": score_json(sc),
                                           "board": pos_json(&bd)})).unwrap();
                events += 1;
                mv
            };
            ply += 1;
            let Some(mv) = proposal else {
                writeln!(out, "{}", json!({"ev": "result", "kind": "didnt_move", "winner": ""})).unwrap();
                events += 1;
                break;
            };
            op!("record-match make_move {mv} on {} (ply {ply})", a.board());
            let ra = a.make_move(mv);
            writeln!(out, "{}", json!({"ev": "make_move", "id": 0, "mv": code(mv), "valid": ra.is_valid, "flag": ra.is_three_fold_draw,
                                       "board": pos_json(&a.board())})).unwrap();
            let rb = b.make_move(mv);
            writeln!(out, "{}", json!({"ev": "make_move", "id": 1, "mv": code(mv), "valid": rb.is_valid, "flag": rb.is_three_fold_draw,
                                       "board": pos_json(&b.board())})).unwrap();
            out.flush().unwrap();
            calls += 2;
            events += 3;
            if ra.is_three_fold_draw {
                flags += 1;
            }
            // the loop's verdict, in the loop's order
            let (kind, winner) = if ra.is_three_fold_draw {
                ("threefold", "")
            } else {
                match a.board().state() {
                    GameState::CheckMate => ("checkmate", if turn == Color::White { "w" } else { "b" }),
                    GameState::StaleMate => ("draw", ""),
                    GameState::Check | GameState::Running => ("running", ""),
                }
            };
            writeln!(out, "{}", json!({"ev": "result", "kind": kind, "winner": winner})).unwrap();
            match kind {
                "checkmate" => mates += 1,
                "draw" | "threefold" => draws += 1,
                _ => {}
            }
            if kind != "running" || ply > 400 || events >= budget {
                break;
            }
        }
    }
    out.flush().unwrap();
    op!("done");
    out_line("SUMMARY", &json!({"counts": {"events": events, "calls": calls, "flags_raised": flags, "games": games, "mates": mates, "draws": draws},
                                "distinct": calls, "nontrivial": flags + mates + draws, "mismatches": 0, "samples": [], "extra": {}}));
    0
}
