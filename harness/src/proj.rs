//! Projection of the implementation's state into the abstract state of the TLA+ specification,
//! and the wire format shared with TLC (see spec/Wire.tla).
//!
//! Everything is read through public accessors or the cfg-guarded read-only hooks; the FEN writer
//! is never used to *obtain* a field (it is itself under test).

use chess_bitboard::{BitBoard, Color, File, Piece, Pos, PromotionPiece, Rank};
use chess_movegen::{Board, ChessMove, GameState};
use serde_json::{json, Value};

pub const PIECE_CH: [[&str; 6]; 2] = [
    ["P", "N", "B", "R", "Q", "K"],
    ["p", "n", "b", "r", "q", "k"],
];

/// letter of a man, by matching on the variants (not on the enums' numeric values, which are the
/// crate's own business)
pub fn piece_ch(c: Color, p: Piece) -> &'static str {
    let i = match c {
        Color::White => 0,
        Color::Black => 1,
    };
    let j = match p {
        Piece::Pawn => 0,
        Piece::Knight => 1,
        Piece::Bishop => 2,
        Piece::Rook => 3,
        Piece::Queen => 4,
        Piece::King => 5,
    };
    PIECE_CH[i][j]
}

pub fn sq(i: u8) -> Pos {
    Pos::from_u8(i).expect("square index")
}

pub fn promo_idx(p: Option<PromotionPiece>) -> u32 {
    match p {
        None => 0,
        Some(PromotionPiece::Knight) => 1,
        Some(PromotionPiece::Bishop) => 2,
        Some(PromotionPiece::Rook) => 3,
        Some(PromotionPiece::Queen) => 4,
    }
}

pub fn promo_of(i: u32) -> Option<PromotionPiece> {
    match i {
        0 => None,
        1 => Some(PromotionPiece::Knight),
        2 => Some(PromotionPiece::Bishop),
        3 => Some(PromotionPiece::Rook),
        _ => Some(PromotionPiece::Queen),
    }
}

/// move code = from * 320 + to * 5 + promotion index (Chess.tla: Code)
pub fn code(m: ChessMove) -> u32 {
    m.source.to_u8() as u32 * 320 + m.dest.to_u8() as u32 * 5 + promo_idx(m.piece)
}

pub fn decode(c: u32) -> ChessMove {
    ChessMove {
        source: sq((c / 320) as u8),
        dest: sq(((c % 320) / 5) as u8),
        piece: promo_of(c % 5),
    }
}

pub fn all_codes() -> impl Iterator<Item = u32> {
    0..20480u32
}

pub fn bb_list(bb: BitBoard) -> Vec<u8> {
    // do not rely on BitBoard's iterator (it is under test in C18): read membership square by square
    (0..64u8).filter(|&i| bb.contains(sq(i))).collect()
}

pub fn limbs(x: u64) -> [u32; 4] {
    [
        (x & 0xffff) as u32,
        ((x >> 16) & 0xffff) as u32,
        ((x >> 32) & 0xffff) as u32,
        ((x >> 48) & 0xffff) as u32,
    ]
}

pub fn state_str(s: GameState) -> &'static str {
    match s {
        GameState::CheckMate => "checkmate",
        GameState::StaleMate => "draw",
        GameState::Check => "check",
        GameState::Running => "running",
    }
}

pub fn has_both_kings(board: &Board) -> bool {
    let raw = board.raw();
    let k = raw[Piece::King];
    (k & raw[Color::White]).count() == 1 && (k & raw[Color::Black]).count() == 1
}

/// the raw board is internally consistent: every square is in at most one colour set and one piece
/// set, and in a colour set iff in a piece set
pub fn raw_consistent(board: &Board) -> bool {
    let raw = board.raw();
    for i in 0..64u8 {
        let p = sq(i);
        let nc = Color::all().filter(|&c| raw[c].contains(p)).count();
        let np = Piece::all().filter(|&pc| raw[pc].contains(p)).count();
        if nc > 1 || np > 1 || nc != np {
            return false;
        }
    }
    true
}

pub fn board_cells(board: &Board) -> Vec<&'static str> {
    let raw = board.raw();
    (0..64u8)
        .map(|i| {
            let p = sq(i);
            // read the sets directly rather than through `get` (which assumes consistency)
            let mut ch = ".";
            for c in Color::all() {
                if raw[c].contains(p) {
                    for pc in Piece::all() {
                        if raw[pc].contains(p) {
                            ch = piece_ch(c, pc);
                        }
                    }
                }
            }
            ch
        })
        .collect()
}

pub fn rights_list(board: &Board) -> Vec<&'static str> {
    let bits = board.verif_castle_bits();
    let mut v = vec![];
    for (i, n) in ["K", "Q", "k", "q"].iter().enumerate() {
        if bits & (1 << i) != 0 {
            v.push(*n);
        }
    }
    v
}

pub fn pos_json(board: &Board) -> Value {
    json!({
        "b": board_cells(board),
        "t": if board.turn() == Color::White { "w" } else { "b" },
        "cr": rights_list(board),
        "ep": board.verif_ep_file().map_or(-1i32, |f| f.to_u8() as i32),
        "hm": board.half_move_clock(),
        "fm": board.full_move_clock(),
    })
}

pub fn legal_codes(board: &Board) -> Vec<u32> {
    board.legals().map(code).collect()
}

/// Observation of one board: the projected position and everything the API derives from it.
/// If a king is missing (only possible after the generator produced an illegal move) derived
/// state is not requested from the implementation (it would be undefined behaviour).
pub fn obs_json(board: &Board, with_twin: bool) -> Value {
    let kings = has_both_kings(board);
    let mut o = json!({
        "pos": pos_json(board),
        "kings": kings,
        "raw_ok": raw_consistent(board),
        "zob": limbs(board.zobrist()),
        "phash": limbs(board.verif_piece_hash()),
        "fen": board.to_string(),
        "cks": bb_list(board.verif_checkers()),
        "pins": bb_list(board.verif_pinned()),
        "chk": board.in_check(),
    });
    if kings {
        let gen = board.legals();
        let len = gen.len();
        let empty = gen.is_empty();
        let legals: Vec<u32> = gen.map(code).collect();
        o["legals"] = json!(legals);
        o["len"] = json!(len);
        o["empty"] = json!(empty);
        o["st"] = json!(state_str(board.state()));
    } else {
        o["legals"] = json!([]);
        o["len"] = json!(0);
        o["empty"] = json!(true);
        o["st"] = json!("nokings");
    }
    if with_twin {
        o["twin"] = twin_json(board);
    }
    o
}

/// The same position rebuilt from its textual description, and how it compares.
pub fn twin_json(board: &Board) -> Value {
    let text = board.to_string();
    match text.parse::<Board>() {
        Err(e) => json!({"ok": false, "err": format!("{e:?}")}),
        Ok(twin) => {
            let kings = has_both_kings(&twin);
            let mut hm = std::collections::HashMap::new();
            hm.insert(*board, 1u8);
            let probe = hm.get(&twin).is_some();
            json!({
                "ok": true,
                "eq": *board == twin && twin == *board,
                "probe": probe,
                "pos_eq": pos_json(board) == pos_json(&twin),
                "zob": limbs(twin.zobrist()),
                "phash": limbs(twin.verif_piece_hash()),
                "fen": twin.to_string(),
                "cks": bb_list(twin.verif_checkers()),
                "pins": bb_list(twin.verif_pinned()),
                "chk": twin.in_check(),
                "legals": if kings { legal_codes(&twin) } else { vec![] },
                "st": if kings { state_str(twin.state()) } else { "nokings" },
                "dbg_eq": format!("{board:?}") == format!("{twin:?}"),
                "dbga_eq": format!("{board:#?}") == format!("{twin:#?}"),
            })
        }
    }
}

pub fn file_of(i: i64) -> Option<File> {
    if i < 0 {
        None
    } else {
        File::from_u8(i as u8)
    }
}

pub fn piece_of_letter(ch: &str) -> Option<(Color, Piece)> {
    for c in Color::all() {
        for p in Piece::all() {
            if piece_ch(c, p) == ch {
                return Some((c, p));
            }
        }
    }
    None
}

/// Build a board from an abstract position record through the incremental builder
/// (place / turn / en passant / clocks / rights) - never through the FEN parser.
pub fn build_from_pos(pos: &Value) -> Result<Board, String> {
    use chess_bitboard::Side;
    let mut b = Board::builder();
    let cells = pos["b"].as_array().ok_or("b")?;
    for (i, cell) in cells.iter().enumerate() {
        let ch = cell.as_str().ok_or("cell")?;
        if ch != "." {
            let (c, p) = piece_of_letter(ch).ok_or("letter")?;
            b.place(sq(i as u8), c, p).map_err(|_| "occupied".to_string())?;
        }
    }
    b.turn(if pos["t"] == "w" { Color::White } else { Color::Black });
    let mut cr = chess_movegen::CastleRights::empty();
    for r in pos["cr"].as_array().ok_or("cr")? {
        cr = match r.as_str().unwrap_or("") {
            "K" => cr.with(Side::King, Color::White),
            "Q" => cr.with(Side::Queen, Color::White),
            "k" => cr.with(Side::King, Color::Black),
            "q" => cr.with(Side::Queen, Color::Black),
            _ => return Err("right".into()),
        };
    }
    b.castle_rights(cr);
    b.enpassant(file_of(pos["ep"].as_i64().ok_or("ep")?));
    b.half_move_clock(pos["hm"].as_u64().ok_or("hm")? as u16);
    b.full_move_clock(pos["fm"].as_u64().ok_or("fm")? as u16);
    b.build().map_err(|e| format!("{e:?}"))
}

#[allow(dead_code)]
pub fn rank_of(i: u8) -> Rank {
    Rank::from_u8(i).unwrap()
}

/// The builder used the way a careless client would: placing onto occupied squares (refused),
/// removing and re-placing pieces, setting fields more than once - the result must still be the
/// same board (C04: hash built from scratch; C05: constructors agree).
pub fn build_messy_from_pos(pos: &Value, salt: u64) -> Result<Board, String> {
    use chess_bitboard::Side;
    let mut b = Board::builder();
    let cells = pos["b"].as_array().ok_or("b")?;
    let mut placed: Vec<(u8, Color, Piece)> = vec![];
    for (i, cell) in cells.iter().enumerate() {
        let ch = cell.as_str().ok_or("cell")?;
        if ch != "." {
            let (c, p) = piece_of_letter(ch).ok_or("letter")?;
            b.place(sq(i as u8), c, p).map_err(|_| "occupied".to_string())?;
            placed.push((i as u8, c, p));
            // a second placement on the same square must be refused and change nothing
            // vary what is offered: another piece of the same colour, another piece of the other
            // colour, the same piece of the other colour
            let other = match (salt + i as u64) % 3 {
                0 => p,
                _ => if p == Piece::Queen { Piece::Knight } else { Piece::Queen },
            };
            let oc = if (salt + i as u64) % 3 == 1 { c } else { !c };
            if b.place(sq(i as u8), oc, other).is_ok() {
                return Err("second placement on an occupied square was accepted".into());
            }
            if (salt + i as u64) % 3 == 0 {
                // after the refusal: clear the square (twice: the second call finds it empty) and place again
                b.remove(sq(i as u8));
                b.remove(sq(i as u8));
                b.place(sq(i as u8), c, p).map_err(|_| "place after remove".to_string())?;
            }
        } else if (salt + i as u64) % 7 == 0 {
            // a stray piece that is removed again; removing an empty square is a no-op
            let _ = b.place(sq(i as u8), Color::Black, Piece::Rook);
            b.remove(sq(i as u8));
            b.remove(sq(i as u8));
        }
    }
    // take one piece off and put it back
    if let Some(&(s, c, p)) = placed.get((salt as usize) % placed.len().max(1)) {
        b.remove(sq(s));
        b.place(sq(s), c, p).map_err(|_| "re-place".to_string())?;
    }
    b.turn(Color::Black);
    b.turn(if pos["t"] == "w" { Color::White } else { Color::Black });
    let mut cr = chess_movegen::CastleRights::empty();
    for r in pos["cr"].as_array().ok_or("cr")? {
        cr = match r.as_str().unwrap_or("") {
            "K" => cr.with(Side::King, Color::White),
            "Q" => cr.with(Side::Queen, Color::White),
            "k" => cr.with(Side::King, Color::Black),
            "q" => cr.with(Side::Queen, Color::Black),
            _ => return Err("right".into()),
        };
    }
    b.castle_rights(chess_movegen::CastleRights::full());
    b.castle_rights(cr);
    b.enpassant(File::from_u8(3));
    b.enpassant(file_of(pos["ep"].as_i64().ok_or("ep")?));
    b.half_move_clock(pos["hm"].as_u64().ok_or("hm")? as u16);
    b.full_move_clock(pos["fm"].as_u64().ok_or("fm")? as u16);
    b.build().map_err(|e| format!("{e:?}"))
}
