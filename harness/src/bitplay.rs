//! Bitboard, text-form and enum-iterator scenarios (C18, C19).

use crate::chessplay::unwrap_tlc_line;
use crate::proj::*;
use crate::util::*;
use chess_bitboard::{BitBoard, Color, File, Piece, Pos, PromotionPiece, Rank, Side};
use chess_movegen::ChessMove;
use rand::Rng;
use serde_json::{json, Value};
use std::io::{BufRead, Write};

fn bb_from(sqs: &[u8]) -> BitBoard {
    let mut x = 0u64;
    for &s in sqs {
        x |= 1u64 << s;
    }
    BitBoard::from_u64(x)
}

fn sqs_of(v: &Value) -> Vec<u8> {
    v.as_array().map(|a| a.iter().map(|x| x.as_u64().unwrap() as u8).collect()).unwrap_or_default()
}

/// membership read bit by bit from the raw u64 - independent of every BitBoard method but to_u64
fn members(bb: BitBoard) -> Vec<u8> {
    (0..64u8).filter(|i| bb.to_u64() >> i & 1 == 1).collect()
}

fn opt_pos(p: Option<Pos>) -> i64 {
    p.map_or(-1, |p| p.to_u8() as i64)
}

/// nth(n) on a fresh iterator: (result, rest, size hint after); a panic is reported as data
fn nth_case(bb: BitBoard, n: usize) -> Value {
    let r = guarded(|| {
        let mut it = bb.iter();
        let r = it.nth(n);
        let hint = it.size_hint();
        let rest: Vec<u8> = it.map(|p| p.to_u8()).collect();
        (opt_pos(r), rest, hint)
    });
    match r {
        Some((r, rest, hint)) => json!({"n": n.min(100000), "r": r, "rest": rest, "hint": hint.0, "hint_hi": hint.1.map_or(-1i64, |h| h as i64)}),
        None => json!({"n": n.min(100000), "r": -2, "rest": [], "hint": -2, "panicked": true}),
    }
}

fn unary_obs(bb: BitBoard, rng: &mut impl Rng) -> Value {
    let mut popped = bb;
    let pop = popped.pop();
    let it = bb.iter();
    let hint = it.size_hint();
    let iter: Vec<u8> = it.map(|p| p.to_u8()).collect();
    let into_iter: Vec<u8> = bb.into_iter().map(|p| p.to_u8()).collect();
    let count = bb.count() as usize;
    let collected_pos: BitBoard = members(bb).iter().map(|&s| sq(s)).collect();
    let collected_bb: BitBoard = members(bb).iter().map(|&s| BitBoard::from_pos(sq(s))).collect();
    // collection from overlapping inputs (a union, not a symmetric difference) and from repeated squares
    let low = BitBoard::from_u64(bb.to_u64() & 0x0000_0000_ffff_ffff);
    let collected_overlap: BitBoard = [bb, low, bb, BitBoard::empty()].into_iter().collect();
    let collected_dups: BitBoard = members(bb).iter().chain(members(bb).iter()).map(|&s| sq(s)).collect();
    let mut wc = vec![];
    for _ in 0..4 {
        let s = rng.gen_range(0..64u8);
        let p = sq(s);
        let mut a = bb;
        a.set(p);
        let mut c = bb;
        c.clear(p);
        let mut d = bb;
        d -= p;
        let forms_ok = a == bb.with(p) && c == bb.cleared(p) && d == bb.cleared(p) && (bb - p) == bb.cleared(p)
            && (bb.contains(p) == members(bb).contains(&s));
        wc.push(json!({"sq": s, "with": members(bb.with(p)), "cleared": members(bb.cleared(p)), "forms_ok": forms_ok}));
    }
    let mut ns: Vec<usize> = vec![0, 1, 2, 5, 63, 64, 65, 127, 128, 1usize << 32, usize::MAX];
    if count > 0 {
        ns.push(count - 1);
    }
    ns.push(count);
    ns.push(count + 1);
    ns.push(rng.gen_range(0..70));
    let nth: Vec<Value> = ns.iter().map(|&n| nth_case(bb, n)).collect();
    json!({
        "ev": "unary", "bb": members(bb),
        "not": members(!bb), "not2": members(bb.not()),
        "up": members(bb.shift_up()), "down": members(bb.shift_down()),
        "left": members(bb.shift_left()), "right": members(bb.shift_right()),
        "flip": members(bb.flip_ranks()), "count": count,
        "any": bb.any(), "none": bb.none(), "all": bb.all(), "some": bb.some(),
        "pop": opt_pos(pop), "poprest": members(popped),
        "iter": iter, "into_iter": into_iter, "hint_lo": hint.0, "hint_hi": hint.1.map_or(-1i64, |h| h as i64),
        "members": (0..64u8).filter(|&s| bb.contains(sq(s))).collect::<Vec<u8>>(),
        "collected": members(collected_pos), "collected_bb": members(collected_bb),
        "collected_overlap": members(collected_overlap), "collected_dups": members(collected_dups),
        "wc": wc, "nth": nth,
    })
}

fn binary_obs(a: BitBoard, b: BitBoard) -> Value {
    let mut o = a;
    o |= b;
    let mut n = a;
    n &= b;
    let mut x = a;
    x ^= b;
    let mut d = a;
    d -= b;
    let assign_ok = o == (a | b) && n == (a & b) && x == (a ^ b) && d == (a - b)
        && a.or(b) == (a | b) && a.and(b) == (a & b) && a.xor(b) == (a ^ b) && a.diff(b) == (a - b)
        && ((a == b) == (a.to_u64() == b.to_u64()));
    json!({"ev": "binary", "a": members(a), "b": members(b), "or": members(a | b), "and": members(a & b),
           "xor": members(a ^ b), "diff": members(a - b), "assign_ok": assign_ok})
}

// ------------------------------------------------------------------------------------------------
// spec -> impl: replay the cases TLC enumerated (BitSetMC.tla)
// ------------------------------------------------------------------------------------------------

pub fn replay_bb(_opts: &Opts) -> i32 {
    let stdin = std::io::stdin();
    let mut lines = 0u64;
    let mut mism = 0u64;
    let mut nontrivial = 0u64;
    let mut samples = vec![];
    let mut rng = rng(1, 1);
    let mut bad = |kind: &str, case: &Value, exp: &Value, got: &Value| {
        out_line("MISMATCH", &json!({"prop": "C18", "kind": kind, "case": case, "exp": exp, "got": got}));
    };
    for line in stdin.lock().lines() {
        let Ok(line) = line else { break };
        if let Some(rec) = unwrap_tlc_line(&line, "BBU") {
            lines += 1;
            let s = sqs_of(&rec["bb"]);
            op!("replay-bb unary {:?}", s);
            let bb = bb_from(&s);
            let o = unary_obs(bb, &mut rng);
            if s.len() >= 1 {
                nontrivial += 1;
            }
            for k in ["not", "up", "down", "left", "right", "flip", "count", "any", "none", "all", "some", "pop", "poprest", "iter"] {
                if o[k] != rec[k] {
                    mism += 1;
                    bad(k, &rec["bb"], &rec[k], &o[k]);
                }
            }
            if o["into_iter"] != rec["iter"] || o["not2"] != rec["not"] || o["members"] != rec["bb"]
                || o["collected"] != rec["bb"] || o["collected_bb"] != rec["bb"]
                || o["collected_overlap"] != rec["bb"] || o["collected_dups"] != rec["bb"]
                || o["hint_lo"] != rec["count"] || o["hint_hi"] != rec["count"]
            {
                mism += 1;
                bad("derived-forms", &rec["bb"], &rec["bb"], &json!([o["into_iter"], o["members"], o["collected"], o["hint_lo"]]));
            }
            for w in o["wc"].as_array().unwrap() {
                if w["forms_ok"] != json!(true) {
                    mism += 1;
                    bad("with-cleared-forms", &rec["bb"], &json!(true), w);
                }
            }
            // nth: rec.nth[i] is the expectation for n = i (0-based), i in 0..count+1
            for (n, e) in rec["nth"].as_array().unwrap().iter().enumerate() {
                let g = nth_case(bb, n);
                if g["r"] != e["r"] || g["rest"] != e["rest"] || g["hint"] != json!(e["rest"].as_array().unwrap().len()) {
                    mism += 1;
                    bad("nth", &json!({"bb": rec["bb"], "n": n}), e, &g);
                }
            }
            if samples.len() < 2 && s.len() == 2 {
                samples.push(json!({"bb": s, "up": rec["up"], "nth": rec["nth"]}));
            }
        } else if let Some(rec) = unwrap_tlc_line(&line, "BBB") {
            lines += 1;
            let a = bb_from(&sqs_of(&rec["a"]));
            let b = bb_from(&sqs_of(&rec["b"]));
            let o = binary_obs(a, b);
            nontrivial += 1;
            for k in ["or", "and", "xor", "diff"] {
                if o[k] != rec[k] {
                    mism += 1;
                    bad(k, &json!({"a": rec["a"], "b": rec["b"]}), &rec[k], &o[k]);
                }
            }
            if o["assign_ok"] != json!(true) {
                mism += 1;
                bad("assign-forms", &json!({"a": rec["a"], "b": rec["b"]}), &json!(true), &json!(false));
            }
        }
    }
    out_line("SUMMARY", &json!({"counts": {"lines": lines}, "distinct": lines, "nontrivial": nontrivial,
                                "mismatches": mism, "samples": samples, "extra": {}}));
    0
}

// ------------------------------------------------------------------------------------------------
// impl -> spec: seeded random boards (validated by BitSetTrace.tla)
// ------------------------------------------------------------------------------------------------

pub fn record_bb(opts: &Opts) -> i32 {
    let seed = opts.num("seed", 1);
    let shard = opts.num("shard", 0);
    let n = opts.num("cases", 200);
    let mut out = std::io::BufWriter::new(std::fs::File::create(opts.str("out", "bb.ndjson")).unwrap());
    let mut rng = rng(seed, 900 + shard);
    let mut events = 0;
    // constructors
    let ctor = json!({"ev": "ctor",
        "pos": (0..64u8).map(|s| members(BitBoard::from_pos(sq(s)))).collect::<Vec<_>>(),
        "file": File::all().map(|f| members(BitBoard::from_file(f))).collect::<Vec<_>>(),
        "rank": Rank::all().map(|r| members(BitBoard::from_rank(r))).collect::<Vec<_>>(),
        "empty": members(BitBoard::empty()), "full": members(!BitBoard::empty())});
    writeln!(out, "{ctor}").unwrap();
    events += 1;
    for i in 0..n {
        // densities from sparse to dense
        let x: u64 = match i % 5 {
            0 => rng.gen::<u64>() & rng.gen::<u64>() & rng.gen::<u64>(),
            1 => rng.gen::<u64>() & rng.gen::<u64>(),
            2 => rng.gen::<u64>(),
            3 => rng.gen::<u64>() | rng.gen::<u64>(),
            _ => rng.gen::<u64>() | rng.gen::<u64>() | rng.gen::<u64>(),
        };
        let y: u64 = rng.gen::<u64>() & if i % 2 == 0 { rng.gen::<u64>() } else { u64::MAX };
        op!("record-bb unary {x:#x}");
        writeln!(out, "{}", unary_obs(BitBoard::from_u64(x), &mut rng)).unwrap();
        op!("record-bb binary {x:#x} {y:#x}");
        writeln!(out, "{}", binary_obs(BitBoard::from_u64(x), BitBoard::from_u64(y))).unwrap();
        events += 2;
    }
    out.flush().unwrap();
    out_line("SUMMARY", &json!({"counts": {"events": events}, "distinct": events, "nontrivial": events - 1, "mismatches": 0, "samples": [], "extra": {}}));
    0
}

// ------------------------------------------------------------------------------------------------
// C19: text forms (recorded, validated by TextMC.tla)
// ------------------------------------------------------------------------------------------------

fn mv_pair(m: Option<ChessMove>) -> (i64, i64) {
    match m {
        Some(m) if m.piece.is_none() => (m.source.to_u8() as i64, m.dest.to_u8() as i64),
        Some(_) => (-3, -3), // a parser that invents a promotion piece is wrong
        None => (-1, -1),
    }
}

pub fn record_text(opts: &Opts) -> i32 {
    let seed = opts.num("seed", 1);
    let alpha_n = opts.num("alphabet", 10) as usize;
    let mut out = std::io::BufWriter::new(std::fs::File::create(opts.str("out", "text.ndjson")).unwrap());
    let mut rng = rng(seed, 1900);
    let mut events = 0u64;
    let mut tried = 0u64;
    // single bytes: all 256, through both the byte and the slice/str entry points
    let mut file = vec![];
    let mut rank = vec![];
    let mut piece = vec![];
    let mut promo = vec![];
    let mut entry_points_agree = true;
    for b in 0..=255u8 {
        op!("record-text byte {b}");
        if let Some(f) = File::from_ascii_byte(b) {
            file.push(json!([b, f.to_u8()]));
        }
        if let Some(r) = Rank::from_ascii_byte(b) {
            rank.push(json!([b, r.to_u8()]));
        }
        if let Some(p) = Piece::from_ascii_byte(b) {
            piece.push(json!([b, p as u8]));
        }
        if let Some(p) = PromotionPiece::from_ascii_byte(b) {
            promo.push(json!([b, p as u8]));
        }
        entry_points_agree &= File::from_ascii_bytes(&[b]) == File::from_ascii_byte(b)
            && Rank::from_ascii_bytes(&[b]) == Rank::from_ascii_byte(b)
            && Piece::from_ascii_bytes(&[b]) == Piece::from_ascii_byte(b)
            && PromotionPiece::from_ascii_bytes(&[b]) == PromotionPiece::from_ascii_byte(b);
        if let Ok(s) = std::str::from_utf8(&[b]) {
            entry_points_agree &= s.parse::<File>().ok() == File::from_ascii_byte(b)
                && s.parse::<Rank>().ok() == Rank::from_ascii_byte(b)
                && s.parse::<Piece>().ok() == Piece::from_ascii_byte(b)
                && s.parse::<PromotionPiece>().ok() == PromotionPiece::from_ascii_byte(b);
        }
        tried += 4;
    }
    // the empty string and two-byte strings must be rejected by the single-byte parsers
    entry_points_agree &= File::from_ascii_bytes(b"").is_none() && Rank::from_ascii_bytes(b"").is_none()
        && Piece::from_ascii_bytes(b"").is_none() && PromotionPiece::from_ascii_bytes(b"").is_none()
        && File::from_ascii_bytes(b"aa").is_none() && Rank::from_ascii_bytes(b"11").is_none()
        && Piece::from_ascii_bytes(b"pp").is_none() && PromotionPiece::from_ascii_bytes(b"qq").is_none();
    writeln!(out, "{}", json!({"ev": "byte_parsers", "file": file, "rank": rank, "piece": piece, "promo": promo,
                               "entry_points_agree": entry_points_agree})).unwrap();
    events += 1;
    // all 65536 two-byte strings
    let mut acc = vec![];
    for a in 0..=255u8 {
        for b in 0..=255u8 {
            if let Some(p) = Pos::from_ascii_bytes(&[a, b]) {
                acc.push(json!([a, b, p.to_u8()]));
            }
        }
    }
    tried += 65536;
    writeln!(out, "{}", json!({"ev": "pos_parser", "accepted": acc, "tried": 65536})).unwrap();
    events += 1;
    // all 4- and 5-byte move strings over an alphabet of relevant bytes (+ seeded others)
    let mut alphabet: Vec<u8> = vec![b'a', b'h', b'1', b'8', b'-', b'A', b'H', b'i', b'0', b'9', b'`', b'@', b' ', b'=', 0x80];
    alphabet.truncate(alpha_n.min(15));
    while alphabet.len() < alpha_n.min(18) {
        let b: u8 = rng.gen();
        if !alphabet.contains(&b) {
            alphabet.push(b);
        }
    }
    for n in [4usize, 5] {
        let mut accepted = vec![];
        let total = alphabet.len().pow(n as u32);
        let mut buf = vec![0u8; n];
        for idx in 0..total {
            let mut k = idx;
            for slot in buf.iter_mut() {
                *slot = alphabet[k % alphabet.len()];
                k /= alphabet.len();
            }
            let (f, t) = mv_pair(ChessMove::from_ascii_bytes(&buf));
            if f != -1 {
                accepted.push(json!({"s": buf, "from": f, "to": t}));
            }
        }
        tried += total as u64;
        writeln!(out, "{}", json!({"ev": "move_parser", "n": n, "alphabet": alphabet, "accepted": accepted, "tried": total})).unwrap();
        events += 1;
    }
    // random byte strings of other lengths (and of these lengths over all bytes)
    let mut cases = vec![];
    for i in 0..opts.num("random", 2000) {
        let len = match i % 8 { 0 => 0, 1 => 1, 2 => 2, 3 => 3, 4 => 4, 5 => 5, 6 => 6, _ => rng.gen_range(7..20) };
        let s: Vec<u8> = (0..len).map(|_| if rng.gen_bool(0.6) { *[b'a', b'e', b'h', b'2', b'4', b'7', b'-', b'Q', b'n'].get(rng.gen_range(0..9)).unwrap() } else { rng.gen() }).collect();
        op!("record-text random {:?}", s);
        let (f, t) = mv_pair(ChessMove::from_ascii_bytes(&s));
        let one = |v: Option<u8>| v.map_or(-1i64, |x| x as i64);
        let mut c = json!({"s": s, "pos": Pos::from_ascii_bytes(&s).map_or(-1, |p| p.to_u8() as i64), "from": f, "to": t,
            "file": one(File::from_ascii_bytes(&s).map(|x| x.to_u8())), "rank": one(Rank::from_ascii_bytes(&s).map(|x| x.to_u8())),
            "piece": one(Piece::from_ascii_bytes(&s).map(|x| x as u8)), "promo": one(PromotionPiece::from_ascii_bytes(&s).map(|x| x as u8))});
        if let Ok(st) = std::str::from_utf8(&s) {
            let agree = st.parse::<ChessMove>().ok() == ChessMove::from_ascii_bytes(&s) && st.parse::<Pos>().ok() == Pos::from_ascii_bytes(&s);
            c["str_agrees"] = json!(agree);
        }
        cases.push(c);
        tried += 1;
    }
    // near misses of the two accepted shapes ("e2e4", "e2-e4"): more separators, separators elsewhere,
    // trailing or leading bytes, a promotion letter, doubled squares - strings of six bytes and more included
    for _ in 0..opts.num("random", 2000) / 40 + 20 {
        let f = sq(rng.gen_range(0..64)).to_string();
        let t = sq(rng.gen_range(0..64)).to_string();
        for text in [format!("{f}--{t}"), format!("{f}---{t}"), format!("{f}-{t}-"), format!("-{f}{t}"), format!("-{f}-{t}"), format!("{f}{t}q"),
                     format!("{f}-{t}q"), format!("{f} {t}"), format!("{f}-{t} "), format!("{f}{f}{t}"), format!("{f}-{f}-{t}"), format!("{f}{t}{t}"),
                     format!("{f}-{t}"), format!("{f}{t}"), format!("{f}-"), format!("{f}--"), format!("{f}-{t}\0"), format!("{f}={t}")] {
            let s = text.into_bytes();
            let (mf, mt) = mv_pair(ChessMove::from_ascii_bytes(&s));
            let one = |v: Option<u8>| v.map_or(-1i64, |x| x as i64);
            let mut c = json!({"s": s, "pos": Pos::from_ascii_bytes(&s).map_or(-1, |p| p.to_u8() as i64), "from": mf, "to": mt,
                "file": one(File::from_ascii_bytes(&s).map(|x| x.to_u8())), "rank": one(Rank::from_ascii_bytes(&s).map(|x| x.to_u8())),
                "piece": one(Piece::from_ascii_bytes(&s).map(|x| x as u8)), "promo": one(PromotionPiece::from_ascii_bytes(&s).map(|x| x as u8))});
            if let Ok(st) = std::str::from_utf8(&s) {
                let agree = st.parse::<ChessMove>().ok() == ChessMove::from_ascii_bytes(&s) && st.parse::<Pos>().ok() == Pos::from_ascii_bytes(&s);
                c["str_agrees"] = json!(agree);
            }
            cases.push(c);
            tried += 1;
        }
    }
    writeln!(out, "{}", json!({"ev": "random_strings", "cases": cases})).unwrap();
    events += 1;
    // written forms and their round trips
    let mut moves = vec![];
    for f in 0..64u8 {
        for t in 0..64u8 {
            let m = ChessMove { source: sq(f), dest: sq(t), piece: None };
            let text = m.to_string();
            let (bf, bt) = mv_pair(text.parse::<ChessMove>().ok());
            moves.push(json!({"from": f, "to": t, "text": text.as_bytes(), "back_from": bf, "back_to": bt}));
        }
    }
    writeln!(out, "{}", json!({"ev": "display",
        "file": File::all().map(|f| f.to_string().into_bytes()).collect::<Vec<_>>(),
        "rank": Rank::all().map(|r| r.to_string().into_bytes()).collect::<Vec<_>>(),
        "pos": (0..64u8).map(|s| sq(s).to_string().into_bytes()).collect::<Vec<_>>(),
        "moves": moves})).unwrap();
    events += 1;
    // coordinate algebra
    let o = |p: Option<Pos>| p.map_or(-1i64, |p| p.to_u8() as i64);
    let pos: Vec<Value> = (0..64u8).map(|s| {
        let p = sq(s);
        json!({"file": p.file().to_u8(), "rank": p.rank().to_u8(), "new": Pos::new(p.file(), p.rank()).to_u8(), "idx": p as u8,
               "from_u8": Pos::from_u8(s).map_or(-1, |x| x.to_u8() as i64),
               "up": o(p.shift_up()), "down": o(p.shift_down()), "left": o(p.shift_left()), "right": o(p.shift_right()),
               "flip": p.flip_rank().to_u8()})
    }).collect();
    let line: Vec<Value> = (0..8u8).map(|i| {
        let f = File::from_u8(i).unwrap();
        let r = Rank::from_u8(i).unwrap();
        json!({"fleft": f.shift_left().map_or(-1, |x| x.to_u8() as i64), "fright": f.shift_right().map_or(-1, |x| x.to_u8() as i64),
               "rdown": r.shift_down().map_or(-1, |x| x.to_u8() as i64), "rup": r.shift_up().map_or(-1, |x| x.to_u8() as i64),
               "rflip": r.flip().to_u8(), "lower": f.lower_letter() as u32, "upper": f.upper_letter() as u32})
    }).collect();
    writeln!(out, "{}", json!({"ev": "coords", "pos": pos, "line": line,
        "from_u8_none": (0..=255u8).filter(|&b| Pos::from_u8(b).is_none()).count(),
        "file_from_u8_none": (0..=255u8).filter(|&b| File::from_u8(b).is_none()).count(),
        "rank_from_u8_none": (0..=255u8).filter(|&b| Rank::from_u8(b).is_none()).count()})).unwrap();
    events += 1;
    out.flush().unwrap();
    out_line("SUMMARY", &json!({"counts": {"events": events, "inputs_tried": tried}, "distinct": tried, "nontrivial": tried, "mismatches": 0, "samples": [], "extra": {}}));
    0
}

// ------------------------------------------------------------------------------------------------
// C19: enum iterators - one replay per transition of the EnumIter state graph
// ------------------------------------------------------------------------------------------------

/// apply a path of operations to a double-ended enumerating iterator, comparing each result and
/// the exact size hint with what the specification prescribes
fn run_de<T, I: Iterator<Item = T> + DoubleEndedIterator>(mut it: I, conv: fn(T) -> i64, path: &[Value]) -> Option<Value> {
    for (i, st) in path.iter().enumerate() {
        let k = st["k"].as_u64().unwrap_or(0) as usize;
        let got = match st["op"].as_str().unwrap_or("") {
            "next" => it.next().map_or(-1, conv),
            "next_back" => it.next_back().map_or(-1, conv),
            "nth" => it.nth(k).map_or(-1, conv),
            "nth_back" => it.nth_back(k).map_or(-1, conv),
            _ => -7,
        };
        let hint = it.size_hint();
        let left = st["left"].as_u64().unwrap_or(0) as usize;
        if got != st["res"].as_i64().unwrap_or(-8) || hint != (left, Some(left)) {
            return Some(json!({"step": i, "op": st, "got": got, "hint": [hint.0, hint.1.map_or(-1i64, |h| h as i64)]}));
        }
    }
    None
}

fn run_fwd<T, I: Iterator<Item = T>>(mut it: I, conv: fn(T) -> i64, path: &[Value]) -> Option<Value> {
    for (i, st) in path.iter().enumerate() {
        let k = st["k"].as_u64().unwrap_or(0) as usize;
        let got = match st["op"].as_str().unwrap_or("") {
            "next" => it.next().map_or(-1, conv),
            "nth" => it.nth(k).map_or(-1, conv),
            _ => -7,
        };
        let hint = it.size_hint();
        let left = st["left"].as_u64().unwrap_or(0) as usize;
        if got != st["res"].as_i64().unwrap_or(-8) || hint != (left, Some(left)) {
            return Some(json!({"step": i, "op": st, "got": got, "hint": [hint.0, hint.1.map_or(-1i64, |h| h as i64)]}));
        }
    }
    None
}

/// one replay per transition of the EnumIter state graph; `--kind` selects which iterators the
/// lines are for: de2 (Color, Side), de6 (Piece), de8 (File, Rank), fwd8 (File::iter, Rank::iter,
/// rank/file as IntoIterator), fwd64 (Pos::all)
pub fn replay_enum(opts: &Opts) -> i32 {
    let kind = opts.str("kind", "de8");
    let stdin = std::io::stdin();
    let mut lines = 0u64;
    let mut runs = 0u64;
    let mut mism = 0u64;
    let mut samples = vec![];
    for line in stdin.lock().lines() {
        let Ok(line) = line else { break };
        let Some(rec) = unwrap_tlc_line(&line, "ENUM") else { continue };
        lines += 1;
        let path = rec["path"].as_array().cloned().unwrap_or_default();
        op!("replay-enum kind={kind} path={}", rec["path"]);
        let mut results: Vec<(&str, Option<Value>)> = vec![];
        match kind.as_str() {
            "de2" => {
                results.push(("Color::all", run_de(Color::all(), |c| c as i64, &path)));
                results.push(("Side::all", run_de(Side::all(), |c| c as i64, &path)));
            }
            "de6" => results.push(("Piece::all", run_de(Piece::all(), |c| c as i64, &path))),
            "de8" => {
                results.push(("File::all", run_de(File::all(), |c| c.to_u8() as i64, &path)));
                results.push(("Rank::all", run_de(Rank::all(), |c| c.to_u8() as i64, &path)));
            }
            "fwd8" => {
                for i in 0..8u8 {
                    let f = File::from_u8(i).unwrap();
                    let r = Rank::from_u8(i).unwrap();
                    // File::iter walks the ranks of a file, Rank::iter the files of a rank
                    results.push(("File::iter", run_fwd(f.iter(), |p| p.rank().to_u8() as i64, &path)));
                    results.push(("Rank::iter", run_fwd(r.iter(), |p| p.file().to_u8() as i64, &path)));
                    results.push(("File::into_iter", run_fwd(f.into_iter(), |p| p.rank().to_u8() as i64, &path)));
                    results.push(("Rank::into_iter", run_fwd(r.into_iter(), |p| p.file().to_u8() as i64, &path)));
                    // and every yielded square lies on the line it was asked for
                    if !f.iter().all(|p| p.file() == f) || !r.iter().all(|p| p.rank() == r) {
                        results.push(("line-membership", Some(json!({"line": i}))));
                    }
                }
            }
            _ => results.push(("Pos::all", run_fwd(Pos::all(), |p| p.to_u8() as i64, &path))),
        }
        for (name, r) in results {
            runs += 1;
            if let Some(d) = r {
                mism += 1;
                out_line("MISMATCH", &json!({"prop": "C19", "kind": format!("enum-iterator {name}"), "case": rec["path"], "exp": d["op"], "got": d}));
            }
        }
        if samples.len() < 2 && path.len() == 3 {
            samples.push(json!({"kind": kind, "path": rec["path"]}));
        }
    }
    out_line("SUMMARY", &json!({"counts": {"lines": lines, "iterator_runs": runs}, "distinct": lines, "nontrivial": lines,
                                "mismatches": mism, "samples": samples, "extra": {}}));
    0
}
