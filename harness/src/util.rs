//! Small shared helpers: options, output, the panic hook, seeded randomness.

use std::cell::RefCell;
use std::collections::HashMap;
use std::io::Write;

pub struct Opts {
    pub map: HashMap<String, String>,
}

impl Opts {
    pub fn parse(args: &[String]) -> Self {
        let mut map = HashMap::new();
        let mut i = 0;
        while i < args.len() {
            let k = args[i].trim_start_matches("--").to_string();
            if i + 1 < args.len() && !args[i + 1].starts_with("--") {
                map.insert(k, args[i + 1].clone());
                i += 2;
            } else {
                map.insert(k, "1".to_string());
                i += 1;
            }
        }
        Opts { map }
    }
    pub fn get(&self, k: &str) -> Option<&str> {
        self.map.get(k).map(|s| s.as_str())
    }
    pub fn str(&self, k: &str, d: &str) -> String {
        self.get(k).unwrap_or(d).to_string()
    }
    pub fn num(&self, k: &str, d: u64) -> u64 {
        self.get(k).map_or(d, |s| s.parse().unwrap_or(d))
    }
    pub fn flag(&self, k: &str) -> bool {
        self.map.contains_key(k)
    }
}

thread_local! {
    /// description of the operation in progress, printed by the panic hook
    static CUR_OP: RefCell<String> = const { RefCell::new(String::new()) };
}

thread_local! {
    /// when set, every operation description is also written to this file before the operation
    /// starts: a plugin that panics aborts the process (FFI boundary) without running this
    /// process's panic hook, and the file then tells which call did not return
    static PENDING: RefCell<Option<String>> = const { RefCell::new(None) };
}

pub fn set_pending_file(path: Option<String>) {
    PENDING.with(|p| *p.borrow_mut() = path);
}

pub fn set_op(s: &str) {
    CUR_OP.with(|c| {
        let mut c = c.borrow_mut();
        c.clear();
        c.push_str(s);
    });
    PENDING.with(|p| {
        if let Some(path) = p.borrow().as_ref() {
            let _ = std::fs::write(path, s);
        }
    });
}

#[macro_export]
macro_rules! op {
    ($($arg:tt)*) => {{
        $crate::util::set_op(&format!($($arg)*));
    }};
}

pub fn cur_op() -> String {
    CUR_OP.with(|c| c.borrow().clone())
}

pub fn install_panic_hook() {
    std::panic::set_hook(Box::new(|info| {
        let msg = if let Some(s) = info.payload().downcast_ref::<&str>() {
            s.to_string()
        } else if let Some(s) = info.payload().downcast_ref::<String>() {
            s.clone()
        } else {
            "?".to_string()
        };
        let loc = info
            .location()
            .map(|l| format!("{}:{}", l.file(), l.line()))
            .unwrap_or_default();
        let rec = serde_json::json!({"op": cur_op(), "msg": msg, "loc": loc});
        let out = std::io::stdout();
        let mut out = out.lock();
        let _ = writeln!(out, "PANIC {rec}");
        let _ = out.flush();
    }));
}

pub fn flush_out() {
    let _ = std::io::stdout().flush();
}

/// Run a closure, turning an unwinding panic of the code under test into a value.
/// (Non-unwinding panics abort the process; the hook above has reported them by then.)
pub fn guarded<T>(f: impl FnOnce() -> T) -> Option<T> {
    std::panic::catch_unwind(std::panic::AssertUnwindSafe(f)).ok()
}

thread_local! {
    /// the TLC-generated input line being replayed (attached to MISMATCH lines so that a violation
    /// can be replayed from its record alone)
    static CUR_LINE: RefCell<String> = const { RefCell::new(String::new()) };
}

pub fn set_input_line(s: &str) {
    CUR_LINE.with(|c| {
        let mut c = c.borrow_mut();
        c.clear();
        c.push_str(s);
    });
}

pub fn out_line(tag: &str, v: &serde_json::Value) {
    let out = std::io::stdout();
    let mut out = out.lock();
    if tag == "MISMATCH" {
        let line = CUR_LINE.with(|c| c.borrow().clone());
        if !line.is_empty() {
            let mut v = v.clone();
            v["input_line"] = serde_json::Value::String(line);
            let _ = writeln!(out, "{tag} {v}");
            return;
        }
    }
    let _ = writeln!(out, "{tag} {v}");
}

/// splitmix64 - seeds derived streams deterministically
pub fn mix(mut x: u64) -> u64 {
    x = x.wrapping_add(0x9e3779b97f4a7c15);
    let mut z = x;
    z = (z ^ (z >> 30)).wrapping_mul(0xbf58476d1ce4e5b9);
    z = (z ^ (z >> 27)).wrapping_mul(0x94d049bb133111eb);
    z ^ (z >> 31)
}

pub fn rng(seed: u64, stream: u64) -> rand::rngs::StdRng {
    use rand::SeedableRng;
    rand::rngs::StdRng::seed_from_u64(mix(seed ^ mix(stream)))
}

pub fn read_json_file(path: &str) -> serde_json::Value {
    let s = std::fs::read_to_string(path).unwrap_or_else(|e| {
        eprintln!("cannot read {path}: {e}");
        std::process::exit(2)
    });
    serde_json::from_str(&s).unwrap_or_else(|e| {
        eprintln!("bad json in {path}: {e}");
        std::process::exit(2)
    })
}

/// roots.json of the framework checkout that drives this run (vlib sets VERIF_ROOTS)
pub fn default_roots() -> String {
    std::env::var("VERIF_ROOTS").unwrap_or_else(|_| "/verif/spec/roots.json".to_string())
}
