SPECIFICATION Spec
VIEW ViewOf
INVARIANT TypeOK
INVARIANT ViewInv
PROPERTY NonInterference
PROPERTY RestoreRoundTrip
ACTION_CONSTRAINT EmitTransition
CHECK_DEADLOCK FALSE
