SPECIFICATION Spec
INVARIANT SamePosition
INVARIANT SameAnswers
INVARIANT CounterBounded
INVARIANT TableIsHistory
PROPERTY IllegalIsStutter
CHECK_DEADLOCK FALSE
