SPECIFICATION Spec
VIEW View
CHECK_DEADLOCK FALSE
