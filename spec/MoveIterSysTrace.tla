-------------------------- MODULE MoveIterSysTrace --------------------------
(***************************************************************************)
(* Conformance of layer S (MoveIterSys) to the code: the recorded calls    *)
(* are applied to the implementation-shaped model and, after every call,   *)
(* the model's entry list / cursor / mask / promotion cursor are compared  *)
(* with the implementation's own (read through the cfg-guarded hooks).     *)
(* A disagreement is model drift (reported as DRIFT, never a violation):   *)
(* the properties are decided against layer R only.                        *)
(***************************************************************************)
EXTENDS MoveIterSys, TLC, Json, IOUtils, TLCExt

Rec == ndJsonDeserialize(IOEnv.VERIF_TRACE)
VARIABLES l, st, bad
vars == <<l, st, bad>>
SeqToSet(s) == { s[i] : i \in 1..Len(s) }
Fail(name, ok) == IF ok THEN {} ELSE {name}
Report(B) == \A c \in B : PrintT(<<"BAD", ToJson([line |-> l, prop |-> "DRIFT", check |-> c])>>)
Upd(f, k, v) == [x \in DOMAIN f \cup {k} |-> IF x = k THEN v ELSE f[x]]

\* the implementation's state as logged: entries [[src, [dests], promo]...], idx (0-based), left, mask
SysOf(j) == [entries |-> [i \in 1..Len(j.entries) |-> [src |-> j.entries[i][1], dests |-> SeqToSet(j.entries[i][2]), promo |-> j.entries[i][3]]],
             idx |-> j.idx + 1, mask |-> SeqToSet(j.mask), pcur |-> 4 - j.left]
\* entries that can never matter again (before the cursor, or empty) are compared as sets of
\* (src, dests, promo) from the cursor on; the order of entries after a set_mask compaction is
\* modelled exactly
Same(a, b) == a.idx = b.idx /\ a.mask = b.mask /\ a.pcur = b.pcur /\ a.entries = b.entries

Ev(name) == l <= Len(Rec) /\ Rec[l].ev = name
Step(B, st2) == Report(B) /\ bad' = B /\ st' = st2 /\ l' = l + 1

New == /\ Ev("it_new")
       /\ Step({}, Upd(st, Rec[l].id, SysOf(Rec[l].sys)))
NextE == /\ Ev("it_next")
         /\ LET e == Rec[l]  s == st[e.id]  r == NextOp(s.entries, s.idx, s.mask, s.pcur) IN
            Step(Fail("next-result", e.res = r[1]), Upd(st, e.id, [s EXCEPT !.entries = r[2], !.idx = r[3], !.pcur = r[4]]))
LenE == /\ Ev("it_len")
        /\ LET e == Rec[l]  s == st[e.id] IN
           Step(Fail("len", e.len = LenOp(s.entries, s.idx, s.mask, s.pcur)) \cup Fail("is_empty", e.empty = IsEmptyOp(s.entries, s.idx, s.mask))
                \cup Fail("state", "sys" \in DOMAIN e => Same(SysOf(e.sys), s)), st)
SetMaskE == /\ Ev("it_set_mask")
            /\ LET e == Rec[l]  s == st[e.id]  M == SeqToSet(e.mask) IN
               Step({}, Upd(st, e.id, [s EXCEPT !.entries = SetMaskOp(s.entries, M), !.idx = 1, !.mask = M]))
RemoveE == /\ Ev("it_remove")
           /\ LET e == Rec[l]  s == st[e.id] IN Step({}, Upd(st, e.id, [s EXCEPT !.entries = RemoveOp(s.entries, SeqToSet(e.mask))]))
RemoveMoveE == /\ Ev("it_remove_move")
               /\ LET e == Rec[l]  s == st[e.id] IN Step({}, Upd(st, e.id, [s EXCEPT !.entries = RemoveMoveOp(s.entries, e.mv)]))
CloneE == /\ Ev("it_clone") /\ Step({}, Upd(st, Rec[l].new, st[Rec[l].id]))
CountE == /\ Ev("it_count")
          /\ LET e == Rec[l]  s == st[e.id] IN Step(Fail("count", e.n = LenOp(s.entries, s.idx, s.mask, s.pcur)), st)

Init == l = 1 /\ st = <<>> /\ bad = {}
Next == New \/ NextE \/ LenE \/ SetMaskE \/ RemoveE \/ RemoveMoveE \/ CloneE \/ CountE
Spec == Init /\ [][Next]_vars
Accepted == /\ PrintT(<<"DONE", ToJson([lines |-> Len(Rec), consumed |-> TLCGet("stats").diameter - 1])>>)
            /\ TLCGet("stats").diameter - 1 = Len(Rec)
=============================================================================
