SPECIFICATION Spec
VIEW View
INVARIANT EmitPos
CHECK_DEADLOCK FALSE
