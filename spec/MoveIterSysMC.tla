--------------------------- MODULE MoveIterSysMC ---------------------------
(***************************************************************************)
(* Refinement check: the implementation-shaped iterator (MoveIterSys)      *)
(* against the contract (MoveIter), on a small universe that contains a    *)
(* promotion entry with two destinations, a second entry of the same       *)
(* source square (the en-passant entry of a pawn), and plain entries, for  *)
(* every sequence of operations up to the depth bound.                     *)
(*                                                                         *)
(* With Restrict = TRUE the two recorded known-finding classes are kept    *)
(* out: no remove_move of a promotion move, and no mutating call while a   *)
(* promotion destination is partially yielded UNLESS the call leaves that  *)
(* destination the one the iterator meets first among the promotions       *)
(* (then the cursor still belongs to it and the code is right).  The       *)
(* refinement holds.  With Restrict = FALSE TLC finds the known findings   *)
(* as counterexamples.                                                     *)
(***************************************************************************)
EXTENDS MoveIterSys, TLC
CONSTANTS Restrict, MaxOps

R == INSTANCE MoveIter

\* squares 0..3 of a toy board; sources 10, 11, 12
InitEntries == << [src |-> 13, dests |-> {1, 3}, promo |-> TRUE],
                  [src |-> 10, dests |-> {0, 1}, promo |-> TRUE],
                  [src |-> 11, dests |-> {2}, promo |-> FALSE],
                  [src |-> 11, dests |-> {3}, promo |-> FALSE],
                  [src |-> 12, dests |-> {1, 2}, promo |-> FALSE] >>
Squares == 0..3
Masks == SUBSET Squares

VARIABLES entries, idx, mask, pcur,     \* layer S
          abs,                          \* layer R state [rem, mask]
          grp,                          \* <<src, dest>> of the promotion destination in progress, or <<-1,-1>>
          ok, nops
vars == <<entries, idx, mask, pcur, abs, grp, ok, nops>>

Init == /\ entries = InitEntries /\ idx = 1 /\ mask = Squares /\ pcur = 0
        /\ abs = [rem |-> Abs(InitEntries, 1, Squares, 0), mask |-> Squares]
        /\ grp = <<-1, -1>> /\ ok = TRUE /\ nops = 0

Mid == pcur # 0
\* the call keeps the cursor on its destination
Kept == InProgress(entries', idx', mask') = grp
DoNext == LET r == NextOp(entries, idx, mask, pcur) IN
          /\ entries' = r[2] /\ idx' = r[3] /\ pcur' = r[4] /\ mask' = mask
          /\ grp' = (IF r[4] # 0 THEN <<r[1] \div 320, (r[1] % 320) \div 5>> ELSE <<-1, -1>>)
          /\ IF r[1] = -1 THEN ok' = R!Exhausted(abs) /\ abs' = abs
             ELSE ok' = R!CanYield(abs, r[1]) /\ abs' = R!AfterYield(abs, r[1])
DoSetMask(M) == /\ entries' = SetMaskOp(entries, M) /\ idx' = 1 /\ mask' = M /\ pcur' = pcur /\ grp' = grp
                /\ (Restrict => (~Mid \/ Kept))
                /\ abs' = R!SetMask(abs, M) /\ ok' = TRUE
DoRemove(M) == /\ entries' = RemoveOp(entries, M) /\ UNCHANGED <<idx, mask, pcur, grp>>
               /\ (Restrict => (~Mid \/ Kept))
               /\ abs' = R!Remove(abs, M) /\ ok' = TRUE
DoRemoveMove(c) == /\ entries' = RemoveMoveOp(entries, c) /\ UNCHANGED <<idx, mask, pcur, grp>>
                   /\ (Restrict => (c % 5 = 0 /\ (~Mid \/ Kept)))
                   /\ abs' = R!RemoveMove(abs, c) /\ ok' = TRUE
AllMoves == Abs(InitEntries, 1, Squares, 0)
Next == /\ nops < MaxOps /\ nops' = nops + 1
        /\ \/ DoNext
           \/ \E M \in Masks : DoSetMask(M)
           \/ \E M \in Masks : DoRemove(M)
           \/ \E c \in AllMoves : DoRemoveMove(c)
Spec == Init /\ [][Next]_vars

\* the refinement: every observable answer is one the contract allows, and the abstraction of the
\* entry list is the contract's set of remaining moves
AnswersAllowed == ok
AbstractionAgrees == Abs(entries, idx, mask, pcur) = abs.rem /\ mask = abs.mask
LenAgrees == LenOp(entries, idx, mask, pcur) = R!Length(abs) /\ IsEmptyOp(entries, idx, mask) = R!IsEmpty(abs)
=============================================================================
