SPECIFICATION Spec
INVARIANT C01
INVARIANT C02
INVARIANT C03
INVARIANT C04
INVARIANT C05
INVARIANT C06
POSTCONDITION Accepted
CHECK_DEADLOCK FALSE
