CONSTANTS
  Moves = {}
  Caps = {}
  MaxPass = 3
SPECIFICATION Spec
INVARIANT ReturnsLegalOrNone
INVARIANT NoneWhenNoMoves
INVARIANT MoveAfterFirstPass
INVARIANT ScoreHasMove
PROPERTY NoCommitAfterExpiry
PROPERTY Terminates
CHECK_DEADLOCK FALSE
