----------------------------- MODULE TracingSys -----------------------------
(***************************************************************************)
(* Layer S for C20: enable / disable / toggle as the implementation runs   *)
(* them - first the thread-local step, then the store to the shared flag - *)
(* so that the other thread can run between the two steps.                 *)
(* TLC checks that this refines the operation-granularity model Tracing    *)
(* (each two-step operation takes effect, for the abstract model, at its   *)
(* store to the shared flag; in between only the running thread's own      *)
(* override differs, which no other thread can observe) and that the       *)
(* non-interference property holds at this granularity too.                *)
(***************************************************************************)
EXTENDS Integers, Sequences, TLC

Threads == {1, 2}
VARIABLES global, local, saved, pc, old
\* pc[t] \in {"idle", "enable", "disable", "toggle"}: the pending store of a two-step operation;
\* old[t]: the override the thread had before the operation in progress
vars == <<global, local, saved, pc, old>>
Flip(x) == CASE x = "E" -> "D" [] x = "D" -> "E" [] OTHER -> "G"

Init == /\ global = TRUE /\ local = [t \in Threads |-> "G"] /\ saved = [t \in Threads |-> "none"]
        /\ pc = [t \in Threads |-> "idle"] /\ old = [t \in Threads |-> "G"]

\* first half of enable / disable / toggle: the thread-local step
Begin(t, op) == /\ pc[t] = "idle" /\ op \in {"enable", "disable", "toggle"}
                /\ old' = [old EXCEPT ![t] = local[t]]
                /\ local' = [local EXCEPT ![t] = CASE op = "enable" -> "E" [] op = "disable" -> "D" [] OTHER -> Flip(local[t])]
                /\ pc' = [pc EXCEPT ![t] = op] /\ UNCHANGED <<global, saved>>
\* second half: the store / fetch_xor on the shared flag
Finish(t) == /\ pc[t] # "idle"
             /\ global' = CASE pc[t] = "enable" -> TRUE [] pc[t] = "disable" -> FALSE [] OTHER -> ~global
             /\ pc' = [pc EXCEPT ![t] = "idle"] /\ UNCHANGED <<local, saved, old>>
\* the single-step operations
Local(t, op) == /\ pc[t] = "idle" /\ op \in {"local_enable", "local_disable", "local_toggle", "take", "restore"}
                /\ (op = "restore" => saved[t] # "none")
                /\ local' = [local EXCEPT ![t] = CASE op = "local_enable" -> "E" [] op = "local_disable" -> "D"
                                                   [] op = "local_toggle" -> Flip(local[t]) [] op = "take" -> "G" [] OTHER -> saved[t]]
                /\ saved' = [saved EXCEPT ![t] = CASE op = "take" -> local[t] [] op = "restore" -> "none" [] OTHER -> saved[t]]
                /\ UNCHANGED <<global, pc, old>>
Next == \E t \in Threads :
           \/ \E op \in {"enable", "disable", "toggle"} : Begin(t, op)
           \/ Finish(t)
           \/ \E op \in {"local_enable", "local_disable", "local_toggle", "take", "restore"} : Local(t, op)
Spec == Init /\ [][Next]_vars

\* refinement mapping: a two-step operation is abstractly atomic at its store
AbsLocal == [t \in Threads |-> IF pc[t] = "idle" THEN local[t] ELSE old[t]]
A == INSTANCE Tracing WITH local <- AbsLocal, path <- <<>>
\* every step is a step of the abstract model on (global, local, saved) or leaves them unchanged
AbsVars == <<global, AbsLocal, saved>>
StepRefines ==
    [][ \/ UNCHANGED AbsVars
        \/ \E t \in Threads, op \in A!Ops :
              /\ A!Enabled(t, op)
              /\ global' = A!GlobalAfter(op)
              /\ AbsLocal' = [AbsLocal EXCEPT ![t] = A!LocalAfter(t, op)]
              /\ saved' = [saved EXCEPT ![t] = A!SavedAfter(t, op)] ]_vars
\* at this granularity too: a thread's override and saved override only change by its own steps
NonInterferenceFine == [][ \A t \in Threads : (local'[t] # local[t] \/ saved'[t] # saved[t]) =>
                               (pc'[t] # pc[t] \/ \A u \in Threads \ {t} : pc'[u] = pc[u] /\ local'[u] = local[u] /\ saved'[u] = saved[u] /\ global' = global) ]_vars
TypeOK == pc \in [Threads -> {"idle", "enable", "disable", "toggle"}]
=============================================================================
