-------------------------------- MODULE BotMC --------------------------------
(* Bot.tla on a three-position graph with cycles of length 1, 2 and 3 (so positions repeat
   quickly), a counter that saturates at 4, every call sequence up to 9 calls. *)
EXTENDS Integers
P3 == {"a", "b", "c"}
E3 == {<<"a", "b">>, <<"b", "a">>, <<"b", "c">>, <<"c", "a">>, <<"a", "a">>}
VARIABLES cur, hist, tcur, table, flagR, flagS, validR, validS, calls
INSTANCE Bot WITH Positions <- P3, Edges <- E3, CounterMax <- 4, MaxCalls <- 9
=============================================================================
