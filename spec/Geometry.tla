------------------------------ MODULE Geometry ------------------------------
(***************************************************************************)
(* Layer R for C09 and C08: the geometric definitions of every lookup the  *)
(* implementation keeps in tables, on the 8x8 board, by coordinate         *)
(* arithmetic (never by shifting words, so wrap-around cannot be copied).  *)
(***************************************************************************)
EXTENDS Chess

KnightMoves(s) == KnightT[s]
KingMoves(s) == KingT[s]
PawnAttacks(c, s) == PawnAtkT[c][s]
\* unobstructed pushes: one step from anywhere (if on the board), two from the start rank
PawnPushes(c, s) ==
    LET f == FileOf(s)  r == RankOf(s)  r1 == r + Fwd(c)  r2 == r + 2 * Fwd(c) IN
    (IF OnBoard(f, r1) THEN {At(f, r1)} ELSE {}) \cup (IF r = StartRank(c) THEN {At(f, r2)} ELSE {})
RaySet(s, dirs) == UNION { { Ray[s][d][i] : i \in 1..Len(Ray[s][d]) } : d \in dirs }
RookRays(s) == RaySet(s, RookDirs)
BishopRays(s) == RaySet(s, BishopDirs)

Aligned(a, b) == a # b /\ ( FileOf(a) = FileOf(b) \/ RankOf(a) = RankOf(b)
                            \/ FileOf(a) - FileOf(b) = RankOf(a) - RankOf(b)
                            \/ FileOf(a) - FileOf(b) = RankOf(b) - RankOf(a) )
Sgn(x) == IF x > 0 THEN 1 ELSE IF x < 0 THEN -1 ELSE 0
Abs(x) == IF x < 0 THEN -x ELSE x
Max(x, y) == IF x > y THEN x ELSE y
Distance(a, b) == Max(Abs(FileOf(a) - FileOf(b)), Abs(RankOf(a) - RankOf(b)))
\* squares strictly between two aligned squares; empty otherwise
Between(a, b) ==
    IF ~Aligned(a, b) THEN {} ELSE
    LET df == Sgn(FileOf(b) - FileOf(a))  dr == Sgn(RankOf(b) - RankOf(a)) IN
    { At(FileOf(a) + i * df, RankOf(a) + i * dr) : i \in 1..(Distance(a, b) - 1) }
\* the whole line through two aligned squares (both included); empty otherwise (and for a = b)
Line(a, b) ==
    IF ~Aligned(a, b) THEN {} ELSE
    LET df == Sgn(FileOf(b) - FileOf(a))  dr == Sgn(RankOf(b) - RankOf(a)) IN
    { s \in Sq : \E i \in -7..7 : FileOf(s) = FileOf(a) + i * df /\ RankOf(s) = RankOf(a) + i * dr }
AdjacentFiles(f) == { s \in Sq : FileOf(s) = f - 1 \/ FileOf(s) = f + 1 }
AdjacentRanks(r) == { s \in Sq : RankOf(s) = r - 1 \/ RankOf(s) = r + 1 }
FileSet(f) == { s \in Sq : FileOf(s) = f }
RankSet(r) == { s \in Sq : RankOf(s) = r }

\* pawn helpers under an occupancy
PawnQuiets(c, s, occ) ==
    LET f == FileOf(s)  r == RankOf(s)  r1 == r + Fwd(c)  r2 == r + 2 * Fwd(c) IN
    IF ~OnBoard(f, r1) \/ At(f, r1) \in occ THEN {}
    ELSE {At(f, r1)} \cup (IF r = StartRank(c) /\ At(f, r2) \notin occ THEN {At(f, r2)} ELSE {})
PawnCaptures(c, s, occ) == PawnAttacks(c, s) \cap occ
PawnMovesOcc(c, s, occ) == PawnQuiets(c, s, occ) \cup PawnCaptures(c, s, occ)

\* slider attacks by ray casting: along each direction up to and including the first occupied square
RECURSIVE Cast(_,_,_)
Cast(r, i, occ) == IF i > Len(r) THEN {} ELSE IF r[i] \in occ THEN {r[i]} ELSE {r[i]} \cup Cast(r, i + 1, occ)
RayAttack(s, occ, dirs) == UNION { Cast(Ray[s][d], 1, occ) : d \in dirs }

RECURSIVE SortedSq(_)
SortedSq(S) == IF S = {} THEN <<>> ELSE LET m == CHOOSE x \in S : \A y \in S : x <= y IN <<m>> \o SortedSq(S \ {m})

\* sanity of the definitions themselves
ASSUME \A a \in Sq, b \in Sq : Between(a, b) \subseteq Line(a, b) /\ Between(a, b) = Between(b, a) /\ Line(a, b) = Line(b, a)
ASSUME \A s \in Sq : RookRays(s) \cap BishopRays(s) = {} /\ s \notin RookRays(s) /\ Cardinality(RookRays(s)) = 14
ASSUME \A s \in Sq : \A t \in KnightMoves(s) : Abs(FileOf(s) - FileOf(t)) + Abs(RankOf(s) - RankOf(t)) = 3
ASSUME \A s \in Sq : \A t \in KingMoves(s) : Distance(s, t) = 1
=============================================================================
