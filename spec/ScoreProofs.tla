---------------------------- MODULE ScoreProofs ----------------------------
(***************************************************************************)
(* C14, proved for all payloads (unbounded integers) with TLAPS: the score *)
(* comparison of Score.tla is a strict total order with the game-theoretic *)
(* shape the property states.                                              *)
(***************************************************************************)
EXTENDS Score, TLAPS

ScoreSet == [k : Kinds, v : Int]

THEOREM Irreflexive == \A a \in ScoreSet : ~Lt(a, a)
  BY DEF ScoreSet, Kinds, Lt, Rank

THEOREM Asymmetric == \A a, b \in ScoreSet : Lt(a, b) => ~Lt(b, a)
  BY DEF ScoreSet, Kinds, Lt, Rank

THEOREM Transitive == \A a, b, c \in ScoreSet : Lt(a, b) /\ Lt(b, c) => Lt(a, c)
  BY DEF ScoreSet, Kinds, Lt, Rank

THEOREM Total == \A a, b \in ScoreSet : Lt(a, b) \/ Lt(b, a) \/ Eq(a, b)
  BY DEF ScoreSet, Kinds, Lt, Rank, Eq

THEOREM EqExcludesLt == \A a, b \in ScoreSet : Eq(a, b) => ~Lt(a, b) /\ ~Lt(b, a)
  BY DEF ScoreSet, Kinds, Lt, Rank, Eq

\* every forced white mate beats every numeric score, which beats every forced black mate;
\* the sentinels are the extremes
THEOREM Layers == \A m, n, x \in Int :
                    /\ Lt(Sc("raw", x), Sc("wm", m))
                    /\ Lt(Sc("bm", n), Sc("raw", x))
                    /\ Lt(Sc("wm", m), Max) /\ Lt(Min, Sc("bm", n))
                    /\ Lt(Min, Max)
  BY DEF Lt, Rank, Sc, Min, Max

\* a quicker white mate is greater than a slower one; a slower black mate is greater than a quicker one;
\* numeric scores order by value
THEOREM WithinKinds == \A m, n \in Int :
                         /\ (m < n) => Lt(Sc("wm", n), Sc("wm", m))
                         /\ (m < n) => Lt(Sc("bm", m), Sc("bm", n))
                         /\ (m < n) => Lt(Sc("raw", m), Sc("raw", n))
  BY DEF Lt, Rank, Sc

\* colour mirror reverses the order (used by C13)
THEOREM NegReverses == \A a, b \in ScoreSet : Lt(a, b) => Lt(Neg(b), Neg(a))
  BY DEF ScoreSet, Kinds, Lt, Rank, Neg, Sc, Min, Max
=============================================================================
