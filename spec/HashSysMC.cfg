SPECIFICATION Spec
INVARIANT IncrementalPieceHashExact
INVARIANT ReadHashExact
CHECK_DEADLOCK FALSE
