------------------------------- MODULE BitSet ------------------------------
(***************************************************************************)
(* Layer R for C18: a bitboard is a set of the 64 squares; every operation *)
(* of the implementation is the corresponding set operation.               *)
(***************************************************************************)
EXTENDS Integers, FiniteSets, Sequences

Sq == 0..63
FileOf(s) == s % 8
RankOf(s) == s \div 8

Empty == {}
Full == Sq
FromPos(s) == {s}
FromFile(f) == { s \in Sq : FileOf(s) = f }
FromRank(r) == { s \in Sq : RankOf(s) = r }
Contains(S, s) == s \in S
With(S, s) == S \cup {s}
Cleared(S, s) == S \ {s}
Or(S, T) == S \cup T
And(S, T) == S \cap T
Xor(S, T) == (S \ T) \cup (T \ S)
Diff(S, T) == S \ T
Not(S) == Sq \ S
\* one-step shifts: squares that would leave the board are dropped, never wrapped
ShiftUp(S) == { s + 8 : s \in { s \in S : RankOf(s) < 7 } }
ShiftDown(S) == { s - 8 : s \in { s \in S : RankOf(s) > 0 } }
ShiftRight(S) == { s + 1 : s \in { s \in S : FileOf(s) < 7 } }    \* towards the h-file
ShiftLeft(S) == { s - 1 : s \in { s \in S : FileOf(s) > 0 } }     \* towards the a-file
FlipRanks(S) == { (7 - RankOf(s)) * 8 + FileOf(s) : s \in S }
Count(S) == Cardinality(S)
Any(S) == S # {}
None(S) == S = {}
All(S) == S = Sq
Some(S) == S # Sq
Min(S) == CHOOSE x \in S : \A y \in S : x <= y

\* pop / iterator next: the smallest element and the rest; -1 when empty
PopResult(S) == IF S = {} THEN -1 ELSE Min(S)
PopRest(S) == IF S = {} THEN {} ELSE S \ {Min(S)}

RECURSIVE Ascending(_)
Ascending(S) == IF S = {} THEN <<>> ELSE <<Min(S)>> \o Ascending(S \ {Min(S)})

\* nth(n) = skipping n elements and taking the next; an n beyond the end exhausts the iterator
NthResult(S, n) == IF n >= Cardinality(S) THEN -1 ELSE Ascending(S)[n + 1]
NthRest(S, n) == IF n >= Cardinality(S) THEN {} ELSE { s \in S : s > NthResult(S, n) }
=============================================================================
