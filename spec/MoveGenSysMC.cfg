SPECIFICATION Spec
VIEW View
INVARIANT GeneratorExact
INVARIANT EntriesDisjoint
INVARIANT Capacity
INVARIANT CachesExact
INVARIANT IncrementalExact
CHECK_DEADLOCK FALSE
