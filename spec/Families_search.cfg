SPECIFICATION Spec
VIEW View
INVARIANT EmitSearch
CHECK_DEADLOCK FALSE
