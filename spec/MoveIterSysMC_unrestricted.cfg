CONSTANTS
  Restrict = FALSE
  MaxOps = 4
SPECIFICATION Spec
INVARIANT AnswersAllowed
INVARIANT AbstractionAgrees
INVARIANT LenAgrees
CHECK_DEADLOCK FALSE
