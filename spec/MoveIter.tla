----------------------------- MODULE MoveIter -----------------------------
(***************************************************************************)
(* Layer R: the contract of the move iterator (C10).                       *)
(*                                                                         *)
(* An iterator instance is a pair                                           *)
(*     rem  : the set of moves it may still yield (not yet yielded, not     *)
(*            removed),                                                     *)
(*     mask : the set of destination squares it is currently restricted to. *)
(* Moves are move codes (Chess.tla: Code); Dest(c) is the destination.      *)
(* The order in which moves are yielded is not specified.                   *)
(*                                                                         *)
(* The module is written as operators on one instance so that it can be     *)
(* used by a model (MoveIterMC), by the trace validator (MoveIterTrace)     *)
(* and by the search specification.                                         *)
(***************************************************************************)
EXTENDS Integers, FiniteSets

Dest(c) == (c % 320) \div 5
Src(c) == c \div 320
AllSquares == 0..63

Masked(it) == { c \in it.rem : Dest(c) \in it.mask }

\* construction: all legal moves / only those whose destination lies in M
New(all) == [rem |-> all, mask |-> AllSquares]
NewMasked(all, M) == [rem |-> { c \in all : Dest(c) \in M }, mask |-> M]

\* next(): may return any masked remaining move; returns none exactly when there is none
CanYield(it, c) == c \in Masked(it)
Exhausted(it) == Masked(it) = {}
AfterYield(it, c) == [it EXCEPT !.rem = @ \ {c}]

\* len() = size_hint() = number of moves that will still be yielded; is_empty() accordingly
Length(it) == Cardinality(Masked(it))
IsEmpty(it) == Masked(it) = {}

SetMask(it, M) == [it EXCEPT !.mask = M]
Remove(it, M) == [it EXCEPT !.rem = { c \in @ : Dest(c) \notin M }]
RemoveMove(it, c) == [it EXCEPT !.rem = @ \ {c}]

\* a promotion destination is "in progress" when some but not all of its four promotion moves
\* have been yielded (used to delimit the recorded known finding, see KNOWN_FINDINGS.txt)
PromoGroup(c) == { c - (c % 5) + k : k \in 1..4 }
MidPromotion(it, yielded) ==
    \E c \in yielded : c % 5 # 0 /\ PromoGroup(c) \cap it.rem # {} /\ PromoGroup(c) \cap Masked(it) # {}
=============================================================================
