------------------------------ MODULE BotTrace ------------------------------
(***************************************************************************)
(* C15: the bot plugin as a state machine over layer R, and the validation *)
(* of calls recorded through its stable interface (the real cdylib).       *)
(*                                                                         *)
(* State, per plugin instance (the tournament loop of chess-cli drives two *)
(* instances, one per player, and keeps them in step by submitting every   *)
(* move to both): the instance's position and the list of position         *)
(* identities (placement, side to move, castling rights, en-passant file - *)
(* no clocks) produced by accepted moves since the board was last set.     *)
(*   SetBoard(i,p)  installs p and forgets the history                     *)
(*   MakeMove(i,m)  applied iff m is legal in the current position; the    *)
(*                  threefold flag is raised exactly when the new position *)
(*                  now has three occurrences in the history               *)
(*   Evaluate(i)    proposes a legal move (or none when there is none) and *)
(*                  leaves the position unchanged                          *)
(*   Result         the tournament loop's verdict on a finished game: it   *)
(*                  must be the verdict of the rules on the position both  *)
(*                  instances hold                                         *)
(* Events without an "id" field belong to instance 0.                      *)
(***************************************************************************)
EXTENDS Wire, TLCExt

Rec == ndJsonDeserialize(IOEnv.VERIF_TRACE)
Ids == {0, 1}
VARIABLES l, pos, legal, hist, lastflag, bad
vars == <<l, pos, legal, hist, lastflag, bad>>

Ident(p) == [b |-> p.b, turn |-> p.turn, cr |-> p.cr, ep |-> p.ep]
Occurrences(h, id) == Cardinality({ i \in 1..Len(h) : h[i] = id })
FailP(prop, name, ok) == IF ok THEN {} ELSE {<<prop, name>>}
Fail(name, ok) == FailP("C15", name, ok)
Report(B) == \A c \in B : PrintT(<<"BAD", ToJson([line |-> l, prop |-> c[1], check |-> c[2]])>>)
Ev(name) == l <= Len(Rec) /\ Rec[l].ev = name
IdOf(e) == IF "id" \in DOMAIN e THEN e.id ELSE 0
Step(B, i, p, L, h, f) == /\ Report(B) /\ bad' = B /\ l' = l + 1
                          /\ pos' = [pos EXCEPT ![i] = p] /\ legal' = [legal EXCEPT ![i] = L]
                          /\ hist' = [hist EXCEPT ![i] = h] /\ lastflag' = [lastflag EXCEPT ![i] = f]

Fresh == /\ Ev("fresh")
         \* (the property speaks of positions "since the board was last set"; what a fresh instance holds is
         \*  the implementation's choice, so a difference is drift and the trace is followed from what it reports)
         /\ Step(FailP("DRIFT", "fresh-engine-holds-the-standard-position", PosOfJson(Rec[l].board) = StdPos),
                 IdOf(Rec[l]), PosOfJson(Rec[l].board), Legal(PosOfJson(Rec[l].board)), <<>>, FALSE)

\* the given board is installed (clocks included) and the history is forgotten
SetBoard == /\ Ev("set_board")
            /\ LET p == PosOfJson(Rec[l].arg) IN
               Step(Fail("set_board-installs-the-given-board", PosOfJson(Rec[l].board) = p), IdOf(Rec[l]), p, Legal(p), <<>>, FALSE)

MakeMove ==
    /\ Ev("make_move")
    /\ LET e == Rec[l]
           i == IdOf(e)
           m == Decode(e.mv)
           isLegal == m \in legal[i]
           p == IF isLegal THEN Apply(pos[i], m) ELSE pos[i]
           h == IF isLegal THEN Append(hist[i], Ident(p)) ELSE hist[i]
           flag == isLegal /\ Occurrences(h, Ident(p)) = 3
           B == Fail("applied-iff-legal", e.valid = isLegal)
                \cup Fail("reported-board-is-the-reference-successor", PosOfJson(e.board) = p)
                \cup Fail("threefold-flag", e.flag = flag)
           \* after a reported divergence follow the plugin, so that the rest is judged on its own
           po == PosOfJson(e.board)
           resync == po # p /\ OneKingEach(po.b)
       IN Step(B, i, IF resync THEN po ELSE p,
               IF resync THEN Legal(po) ELSE IF isLegal THEN Legal(p) ELSE legal[i],
               IF resync THEN Append(hist[i], Ident(po)) ELSE h, flag)

Evaluate ==
    /\ Ev("evaluate")
    /\ LET e == Rec[l]
           i == IdOf(e)
           B == Fail("proposed-move-is-legal", e.mv = -1 \/ Decode(e.mv) \in legal[i])
                \cup Fail("move-proposed-although-none-is-legal", legal[i] = {} => e.mv = -1)
                \cup Fail("evaluate-changed-the-board", PosOfJson(e.board) = pos[i])
       IN Step(B, i, pos[i], legal[i], hist[i], lastflag[i])

\* The verdict of the game loop (chess-cli bot_fight, transcribed in the harness): after a move has
\* been submitted to both instances the game is over by repetition when the flag was raised, else by
\* what Board::state() says.  Both instances must hold the same position with the same history, and
\* the verdict must be the one the rules give: "checkmate" exactly when the side to move is mated
\* (the mover wins), "draw" when there is no legal move without check or the clock has run out,
\* "threefold" exactly when the last position has occurred three times, and a game that goes on
\* is in none of these situations.
Result ==
    /\ Ev("result")
    /\ LET e == Rec[l]
           p == pos[0]
           cls == ClassifyWith(legal[0], InCheck(p), p.hm)
           three == lastflag[0]
           gaveup == e.kind = "didnt_move"
           want == IF three THEN "threefold" ELSE IF cls = "checkmate" THEN "checkmate" ELSE IF cls = "draw" THEN "draw" ELSE "running"
           B == Fail("instances-hold-the-same-position", pos[0] = pos[1] /\ hist[0] = hist[1])
                \cup FailP("C03", "game-verdict-is-the-verdict-of-the-rules", gaveup \/ e.kind = want)
                \cup Fail("game-abandoned-although-a-move-was-proposed", gaveup => (l > 1 /\ Rec[l-1].ev = "evaluate" /\ Rec[l-1].mv = -1))
                \cup FailP("C03", "winner-is-the-side-that-moved-last", e.kind = "checkmate" => e.winner = (IF p.turn = "w" THEN "b" ELSE "w"))
       IN Step(B, 0, pos[0], legal[0], hist[0], lastflag[0])

Init == /\ l = 1 /\ pos = [i \in Ids |-> StdPos] /\ legal = [i \in Ids |-> {}] /\ hist = [i \in Ids |-> <<>>]
        /\ lastflag = [i \in Ids |-> FALSE] /\ bad = {}
Next == Fresh \/ SetBoard \/ MakeMove \/ Evaluate \/ Result
Spec == Init /\ [][Next]_vars
C15 == bad = {}
Accepted == /\ PrintT(<<"DONE", ToJson([lines |-> Len(Rec), consumed |-> TLCGet("stats").diameter - 1])>>)
            /\ TLCGet("stats").diameter - 1 = Len(Rec)
=============================================================================
