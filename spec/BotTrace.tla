------------------------------ MODULE BotTrace ------------------------------
(***************************************************************************)
(* C15: the bot plugin as a state machine over layer R, and the validation *)
(* of calls recorded through its stable interface (the real cdylib).       *)
(*                                                                         *)
(* State: the plugin's position and the list of position identities        *)
(* (placement, side to move, castling rights, en-passant file - no clocks) *)
(* produced by accepted moves since the board was last set.                *)
(*   SetBoard(p)  installs p and forgets the history                       *)
(*   MakeMove(m)  applied iff m is legal in the current position; the      *)
(*                threefold flag is raised exactly when the new position   *)
(*                now has three occurrences in the history                 *)
(*   Evaluate     proposes a legal move (or none when there is none) and   *)
(*                leaves the position unchanged                            *)
(***************************************************************************)
EXTENDS Wire, TLCExt

Rec == ndJsonDeserialize(IOEnv.VERIF_TRACE)
VARIABLES l, pos, legal, hist, bad
vars == <<l, pos, legal, hist, bad>>

Ident(p) == [b |-> p.b, turn |-> p.turn, cr |-> p.cr, ep |-> p.ep]
Occurrences(h, id) == Cardinality({ i \in 1..Len(h) : h[i] = id })
Fail(name, ok) == IF ok THEN {} ELSE {name}
Report(B) == \A c \in B : PrintT(<<"BAD", ToJson([line |-> l, prop |-> "C15", check |-> c])>>)
Ev(name) == l <= Len(Rec) /\ Rec[l].ev = name
Step(B, p, L, h) == /\ Report(B) /\ bad' = B /\ pos' = p /\ legal' = L /\ hist' = h /\ l' = l + 1

Fresh == /\ Ev("fresh")
         /\ Step(Fail("fresh-engine-holds-the-standard-position", PosOfJson(Rec[l].board) = StdPos), StdPos, Legal(StdPos), <<>>)

\* the given board is installed (clocks included) and the history is forgotten
SetBoard == /\ Ev("set_board")
            /\ LET p == PosOfJson(Rec[l].arg) IN
               Step(Fail("set_board-installs-the-given-board", PosOfJson(Rec[l].board) = p), p, Legal(p), <<>>)

MakeMove ==
    /\ Ev("make_move")
    /\ LET e == Rec[l]
           m == Decode(e.mv)
           isLegal == m \in legal
           p == IF isLegal THEN Apply(pos, m) ELSE pos
           h == IF isLegal THEN Append(hist, Ident(p)) ELSE hist
           flag == isLegal /\ Occurrences(h, Ident(p)) = 3
           B == Fail("applied-iff-legal", e.valid = isLegal)
                \cup Fail("reported-board-is-the-reference-successor", PosOfJson(e.board) = p)
                \cup Fail("threefold-flag", e.flag = flag)
           \* after a reported divergence follow the plugin, so that the rest is judged on its own
           po == PosOfJson(e.board)
           resync == po # p /\ OneKingEach(po.b)
       IN Step(B, IF resync THEN po ELSE p,
               IF resync THEN Legal(po) ELSE IF isLegal THEN Legal(p) ELSE legal,
               IF resync THEN Append(hist, Ident(po)) ELSE h)

Evaluate ==
    /\ Ev("evaluate")
    /\ LET e == Rec[l]
           B == Fail("proposed-move-is-legal", e.mv = -1 \/ Decode(e.mv) \in legal)
                \cup Fail("move-proposed-although-none-is-legal", legal = {} => e.mv = -1)
                \cup Fail("evaluate-changed-the-board", PosOfJson(e.board) = pos)
       IN Step(B, pos, legal, hist)

Init == l = 1 /\ pos = StdPos /\ legal = {} /\ hist = <<>> /\ bad = {}
Next == Fresh \/ SetBoard \/ MakeMove \/ Evaluate
Spec == Init /\ [][Next]_vars
C15 == bad = {}
Accepted == /\ PrintT(<<"DONE", ToJson([lines |-> Len(Rec), consumed |-> TLCGet("stats").diameter - 1])>>)
            /\ TLCGet("stats").diameter - 1 = Len(Rec)
=============================================================================
