----------------------------- MODULE BotProofs -----------------------------
(***************************************************************************)
(* C15, the repetition table, proved for histories of any length and any   *)
(* set of positions with TLAPS.  The implementation keeps, per position, a *)
(* counter that saturates at CounterMax (u8::MAX) and raises the flag when *)
(* the incremented counter equals 3.  The contract counts occurrences in   *)
(* an unbounded history (n[p]).  Proved: the table is the true count       *)
(* capped at CounterMax in every reachable state, and therefore the flag   *)
(* is raised exactly on the third occurrence - provided CounterMax > 3     *)
(* (a counter saturating at 3 itself would raise the flag again on every   *)
(* later occurrence: with that weaker assumption FlagExact is unprovable). *)
(* Bot.tla / BotMC.tla check the same design, with the legality gate and   *)
(* set_board, exhaustively for short call sequences.                       *)
(***************************************************************************)
EXTENDS Integers, TLAPS
CONSTANTS Positions, CounterMax
ASSUME MaxAssm == CounterMax \in Nat /\ CounterMax > 3

VARIABLES n,      \* contract: occurrences of each position since the board was set
          t,      \* implementation: the saturating table
          flagR, flagS
vars == <<n, t, flagR, flagS>>

Cap(c) == IF c >= CounterMax THEN CounterMax ELSE c
Sat(c) == IF c >= CounterMax THEN CounterMax ELSE c + 1

Init == /\ n = [p \in Positions |-> 0] /\ t = [p \in Positions |-> 0]
        /\ flagR = FALSE /\ flagS = FALSE
Reset == /\ n' = [p \in Positions |-> 0] /\ t' = [p \in Positions |-> 0]
         /\ flagR' = FALSE /\ flagS' = FALSE
\* an accepted move produces position p
Count(p) == /\ n' = [n EXCEPT ![p] = n[p] + 1]
            /\ t' = [t EXCEPT ![p] = Sat(t[p])]
            /\ flagR' = (n[p] + 1 = 3)
            /\ flagS' = (Sat(t[p]) = 3)
\* a refused move changes nothing and raises no flag
Refuse == /\ UNCHANGED <<n, t>> /\ flagR' = FALSE /\ flagS' = FALSE
Next == Reset \/ Refuse \/ \E p \in Positions : Count(p)
Spec == Init /\ [][Next]_vars

TypeOK == n \in [Positions -> Nat] /\ t \in [Positions -> Nat] /\ flagR \in BOOLEAN /\ flagS \in BOOLEAN
TableIsCappedCount == \A p \in Positions : t[p] = Cap(n[p])
SameFlag == flagS = flagR
Inv == TypeOK /\ TableIsCappedCount /\ SameFlag

LEMMA SatTracks == \A c \in Nat : Sat(Cap(c)) = Cap(c + 1)
  BY MaxAssm DEF Sat, Cap

LEMMA FlagExact == \A c \in Nat : (Sat(Cap(c)) = 3) <=> (c + 1 = 3)
  BY MaxAssm DEF Sat, Cap

THEOREM InitInv == Init => Inv
  BY MaxAssm DEF Init, Inv, TypeOK, TableIsCappedCount, SameFlag, Cap

THEOREM StepInv == Inv /\ [Next]_vars => Inv'
<1> SUFFICES ASSUME Inv, [Next]_vars PROVE Inv'
  OBVIOUS
<1>1. CASE Reset
  BY <1>1, MaxAssm DEF Reset, Inv, TypeOK, TableIsCappedCount, SameFlag, Cap
<1>2. CASE Refuse
  BY <1>2 DEF Refuse, Inv, TypeOK, TableIsCappedCount, SameFlag
<1>3. ASSUME NEW p \in Positions, Count(p) PROVE Inv'
  <2>1. n[p] \in Nat /\ t[p] = Cap(n[p])
    BY DEF Inv, TypeOK, TableIsCappedCount
  <2>2. Sat(t[p]) = Cap(n[p] + 1) /\ ((Sat(t[p]) = 3) <=> (n[p] + 1 = 3))
    BY <2>1, SatTracks, FlagExact
  <2>3. Sat(t[p]) \in Nat
    BY <2>1, <2>2, MaxAssm DEF Cap
  <2>4. TypeOK'
    BY <1>3, <2>1, <2>3 DEF Count, Inv, TypeOK
  <2>5. TableIsCappedCount'
    BY <1>3, <2>1, <2>2 DEF Count, Inv, TypeOK, TableIsCappedCount
  <2>6. SameFlag'
    BY <1>3, <2>2 DEF Count, SameFlag
  <2> QED BY <2>4, <2>5, <2>6 DEF Inv
<1>4. CASE UNCHANGED vars
  BY <1>4 DEF vars, Inv, TypeOK, TableIsCappedCount, SameFlag
<1> QED BY <1>1, <1>2, <1>3, <1>4 DEF Next

THEOREM Safety == Spec => []Inv
  BY InitInv, StepInv, PTL DEF Spec
=============================================================================
