-------------------------------- MODULE Text --------------------------------
(***************************************************************************)
(* Layer R for C19: the text forms of squares, files, ranks, pieces and    *)
(* moves as partial functions on byte sequences (bytes are 0..255), and    *)
(* the coordinate algebra of squares.  -1 stands for "rejected".           *)
(***************************************************************************)
EXTENDS Integers, Sequences, FiniteSets

Byte == 0..255
FileOfByte(b) == IF b \in 97..104 THEN b - 97 ELSE IF b \in 65..72 THEN b - 65 ELSE -1     \* a-h, A-H
RankOfByte(b) == IF b \in 49..56 THEN b - 49 ELSE -1                                         \* 1-8
\* piece letters in either case; P N B R Q K = 0..5
PieceLetters == <<80, 78, 66, 82, 81, 75>>
PieceOfByte(b) == LET up == IF b \in 97..122 THEN b - 32 ELSE b
                      hit == { i \in 1..6 : PieceLetters[i] = up } IN
                  IF hit = {} THEN -1 ELSE (CHOOSE i \in hit : TRUE) - 1
PromoOfByte(b) == LET p == PieceOfByte(b) IN IF p \in 1..4 THEN p ELSE -1

PosOfBytes(s) == IF Len(s) = 2 /\ FileOfByte(s[1]) # -1 /\ RankOfByte(s[2]) # -1
                 THEN RankOfByte(s[2]) * 8 + FileOfByte(s[1]) ELSE -1
\* a move is "e2e4" or "e2-e4"; the result is <<from, to>> or <<-1, -1>>
MoveOfBytes(s) ==
    LET four == IF Len(s) = 4 THEN s ELSE IF Len(s) = 5 /\ s[3] = 45 THEN <<s[1], s[2], s[4], s[5]>> ELSE <<>>
    IN IF four = <<>> THEN <<-1, -1>>
       ELSE LET f == PosOfBytes(<<four[1], four[2]>>)  t == PosOfBytes(<<four[3], four[4]>>) IN
            IF f = -1 \/ t = -1 THEN <<-1, -1>> ELSE <<f, t>>

\* written forms (as byte sequences)
FileText(f) == <<97 + f>>
RankText(r) == <<49 + r>>
PosText(p) == <<97 + (p % 8), 49 + (p \div 8)>>
MoveText(f, t) == PosText(f) \o <<45>> \o PosText(t)

\* coordinate algebra
FileOf(p) == p % 8
RankOf(p) == p \div 8
PosNew(f, r) == r * 8 + f
Up(p) == IF RankOf(p) = 7 THEN -1 ELSE p + 8
Down(p) == IF RankOf(p) = 0 THEN -1 ELSE p - 8
Right(p) == IF FileOf(p) = 7 THEN -1 ELSE p + 1
Left(p) == IF FileOf(p) = 0 THEN -1 ELSE p - 1
FlipRank(p) == (7 - RankOf(p)) * 8 + FileOf(p)
=============================================================================
