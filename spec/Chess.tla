------------------------------ MODULE Chess ------------------------------
(***************************************************************************)
(* Layer R: the rules of chess as a transition system over an abstract     *)
(* position.  Nothing here is shared with the implementation: geometry is  *)
(* coordinate arithmetic and ray walking, legality is "pseudo-legal and    *)
(* the mover's king is not attacked afterwards", castling is the textbook  *)
(* rule.  The module has no variables; state machines that use it          *)
(* (ChessMC, ChessTrace, Book, Bot, SearchTrace ...) keep a position       *)
(* record                                                                   *)
(*   [b : [0..63 -> piece letter or "."], turn : {"w","b"},                *)
(*    cr : SUBSET {"K","Q","k","q"}, ep : -1..7, hm : Nat, fm : Nat]       *)
(* and step it with Apply(pos, m) for m \in Legal(pos).                    *)
(***************************************************************************)
EXTENDS Integers, Sequences, FiniteSets, TLC

Sq == 0..63
FileOf(s) == s % 8
RankOf(s) == s \div 8
At(f, r) == r * 8 + f
OnBoard(f, r) == f \in 0..7 /\ r \in 0..7

WhiteP == {"P","N","B","R","Q","K"}
BlackP == {"p","n","b","r","q","k"}
Pieces == WhiteP \cup BlackP
Colors == {"w","b"}
ColorOf(p) == IF p \in WhiteP THEN "w" ELSE IF p \in BlackP THEN "b" ELSE "-"
KindOf(p) == CASE p \in {"P","p"} -> "P" [] p \in {"N","n"} -> "N" [] p \in {"B","b"} -> "B"
               [] p \in {"R","r"} -> "R" [] p \in {"Q","q"} -> "Q" [] p \in {"K","k"} -> "K" [] OTHER -> "."
Lower(k) == CASE k = "P" -> "p" [] k = "N" -> "n" [] k = "B" -> "b" [] k = "R" -> "r" [] k = "Q" -> "q" [] k = "K" -> "k"
Mk(c, k) == IF c = "w" THEN k ELSE Lower(k)
Opp(c) == IF c = "w" THEN "b" ELSE "w"
SwapCase(p) == IF p = "." THEN "." ELSE Mk(Opp(ColorOf(p)), KindOf(p))

Dirs == << <<0,1>>, <<0,-1>>, <<1,0>>, <<-1,0>>, <<1,1>>, <<1,-1>>, <<-1,1>>, <<-1,-1>> >>
RookDirs == 1..4
BishopDirs == 5..8

RECURSIVE RayFrom(_,_,_,_)
RayFrom(f, r, df, dr) == IF OnBoard(f+df, r+dr) THEN <<At(f+df, r+dr)>> \o RayFrom(f+df, r+dr, df, dr) ELSE <<>>

\* Ray[s][d] = squares from s (exclusive) to the edge in direction d, nearest first
Ray == [s \in Sq |-> [d \in 1..8 |-> RayFrom(FileOf(s), RankOf(s), Dirs[d][1], Dirs[d][2])]]

KnightOffs == { <<1,2>>, <<2,1>>, <<-1,2>>, <<-2,1>>, <<1,-2>>, <<2,-1>>, <<-1,-2>>, <<-2,-1>> }
KnightT == [s \in Sq |-> { At(FileOf(s)+o[1], RankOf(s)+o[2]) : o \in {o \in KnightOffs : OnBoard(FileOf(s)+o[1], RankOf(s)+o[2])} }]
KingOffs == { <<1,0>>, <<-1,0>>, <<0,1>>, <<0,-1>>, <<1,1>>, <<1,-1>>, <<-1,1>>, <<-1,-1>> }
KingT == [s \in Sq |-> { At(FileOf(s)+o[1], RankOf(s)+o[2]) : o \in {o \in KingOffs : OnBoard(FileOf(s)+o[1], RankOf(s)+o[2])} }]
Fwd(c) == IF c = "w" THEN 1 ELSE -1
\* squares a pawn of colour c standing on s attacks
PawnAtkT == [c \in Colors |-> [s \in Sq |-> { At(FileOf(s)+df, RankOf(s)+Fwd(c)) : df \in {df \in {-1,1} : OnBoard(FileOf(s)+df, RankOf(s)+Fwd(c))} }]]

\* first occupied square along a ray, or -1
RECURSIVE Hit(_,_,_)
Hit(b, r, i) == IF i > Len(r) THEN -1 ELSE IF b[r[i]] # "." THEN r[i] ELSE Hit(b, r, i+1)

\* squares a slider of colour `me` reaches along a ray: empty squares, then an enemy piece
RECURSIVE Slide(_,_,_,_)
Slide(b, r, i, me) == IF i > Len(r) THEN {} ELSE
    LET p == b[r[i]] IN IF p = "." THEN {r[i]} \cup Slide(b, r, i+1, me)
                        ELSE IF ColorOf(p) = me THEN {} ELSE {r[i]}

\* the set of squares holding a piece of colour c that attacks square s on board b
Attackers(b, s, c) ==
    { t \in KnightT[s] : b[t] = Mk(c, "N") }
    \cup { t \in KingT[s] : b[t] = Mk(c, "K") }
    \cup { t \in PawnAtkT[Opp(c)][s] : b[t] = Mk(c, "P") }
    \cup { h \in { Hit(b, Ray[s][d], 1) : d \in RookDirs } : h # -1 /\ b[h] \in {Mk(c,"R"), Mk(c,"Q")} }
    \cup { h \in { Hit(b, Ray[s][d], 1) : d \in BishopDirs } : h # -1 /\ b[h] \in {Mk(c,"B"), Mk(c,"Q")} }

\* is square s attacked by colour c on board b (written separately from Attackers on purpose)
Attacked(b, s, c) ==
    \/ \E t \in KnightT[s] : b[t] = Mk(c, "N")
    \/ \E t \in KingT[s] : b[t] = Mk(c, "K")
    \/ \E t \in PawnAtkT[Opp(c)][s] : b[t] = Mk(c, "P")
    \/ \E d \in RookDirs : LET h == Hit(b, Ray[s][d], 1) IN h # -1 /\ b[h] \in {Mk(c,"R"), Mk(c,"Q")}
    \/ \E d \in BishopDirs : LET h == Hit(b, Ray[s][d], 1) IN h # -1 /\ b[h] \in {Mk(c,"B"), Mk(c,"Q")}

KingSquares(b, c) == { s \in Sq : b[s] = Mk(c, "K") }
KingSq(b, c) == CHOOSE s \in Sq : b[s] = Mk(c, "K")
OneKingEach(b) == Cardinality(KingSquares(b, "w")) = 1 /\ Cardinality(KingSquares(b, "b")) = 1
InCheck(pos) == Attacked(pos.b, KingSq(pos.b, pos.turn), Opp(pos.turn))
Checkers(pos) == Attackers(pos.b, KingSq(pos.b, pos.turn), Opp(pos.turn))

PromoRank(c) == IF c = "w" THEN 7 ELSE 0
StartRank(c) == IF c = "w" THEN 1 ELSE 6
EpRank(c) == IF c = "w" THEN 5 ELSE 2    \* rank of the en-passant target square when c is to move
EpPawnRank(c) == IF c = "w" THEN 4 ELSE 3 \* rank of the pawn that can be captured en passant by c
HomeRank(c) == IF c = "w" THEN 0 ELSE 7
Promos == {"N","B","R","Q"}
M(f, t, p) == [from |-> f, to |-> t, promo |-> p]

PawnMoves(pos, s) ==
    LET c == pos.turn  b == pos.b  f == FileOf(s)  r == RankOf(s)  r1 == r + Fwd(c)
        one == IF OnBoard(f, r1) /\ b[At(f, r1)] = "." THEN {At(f, r1)} ELSE {}
        two == IF one # {} /\ r = StartRank(c) /\ b[At(f, r + 2*Fwd(c))] = "." THEN {At(f, r + 2*Fwd(c))} ELSE {}
        caps == { t \in PawnAtkT[c][s] : ColorOf(b[t]) = Opp(c) \/ (pos.ep # -1 /\ t = At(pos.ep, EpRank(c)) ) }
        dests == one \cup two \cup caps
    IN UNION { IF RankOf(t) = PromoRank(c) THEN { M(s, t, p) : p \in Promos } ELSE { M(s, t, "") } : t \in dests }

PieceMoves(pos, s) ==
    LET c == pos.turn  b == pos.b  k == KindOf(b[s]) IN
    CASE k = "P" -> PawnMoves(pos, s)
      [] k = "N" -> { M(s, t, "") : t \in { t \in KnightT[s] : ColorOf(b[t]) # c } }
      [] k = "K" -> { M(s, t, "") : t \in { t \in KingT[s] : ColorOf(b[t]) # c } }
      [] k = "R" -> { M(s, t, "") : t \in UNION { Slide(b, Ray[s][d], 1, c) : d \in RookDirs } }
      [] k = "B" -> { M(s, t, "") : t \in UNION { Slide(b, Ray[s][d], 1, c) : d \in BishopDirs } }
      [] k = "Q" -> { M(s, t, "") : t \in UNION { Slide(b, Ray[s][d], 1, c) : d \in 1..8 } }

Pseudo(pos) == UNION { PieceMoves(pos, s) : s \in { s \in Sq : ColorOf(pos.b[s]) = pos.turn } }

IsEp(pos, m) == KindOf(pos.b[m.from]) = "P" /\ pos.ep # -1 /\ m.to = At(pos.ep, EpRank(pos.turn)) /\ FileOf(m.from) # FileOf(m.to)
IsCastle(pos, m) == KindOf(pos.b[m.from]) = "K" /\ (FileOf(m.to) - FileOf(m.from)) \in {2, -2}
IsCapture(pos, m) == pos.b[m.to] # "." \/ IsEp(pos, m)

BoardAfter(pos, m) ==
    LET b == pos.b  c == pos.turn  p == b[m.from]
        placed == IF m.promo # "" THEN Mk(c, m.promo) ELSE p
        b1 == [b EXCEPT ![m.from] = ".", ![m.to] = placed]
        b2 == IF IsEp(pos, m) THEN [b1 EXCEPT ![At(FileOf(m.to), RankOf(m.from))] = "."] ELSE b1
        b3 == IF IsCastle(pos, m)
              THEN IF FileOf(m.to) = 6 THEN [b2 EXCEPT ![At(7, HomeRank(c))] = ".", ![At(5, HomeRank(c))] = Mk(c, "R")]
                                        ELSE [b2 EXCEPT ![At(0, HomeRank(c))] = ".", ![At(3, HomeRank(c))] = Mk(c, "R")]
              ELSE b2
    IN b3

\* castling rights that cannot survive a move from or to square s
RightsLost(s) == CASE s = 0 -> {"Q"} [] s = 7 -> {"K"} [] s = 4 -> {"K","Q"} [] s = 56 -> {"q"} [] s = 63 -> {"k"} [] s = 60 -> {"k","q"} [] OTHER -> {}

Apply(pos, m) ==
    LET b == pos.b  c == pos.turn
        isP == KindOf(b[m.from]) = "P"
    IN [ b |-> BoardAfter(pos, m),
         turn |-> Opp(c),
         cr |-> pos.cr \ (RightsLost(m.from) \cup RightsLost(m.to)),
         ep |-> IF isP /\ (RankOf(m.to) - RankOf(m.from)) \in {2,-2} THEN FileOf(m.from) ELSE -1,
         hm |-> IF isP \/ IsCapture(pos, m) THEN 0 ELSE pos.hm + 1,
         fm |-> IF c = "b" THEN pos.fm + 1 ELSE pos.fm ]

CastleMoves(pos) ==
    LET c == pos.turn  b == pos.b  h == HomeRank(c)  o == Opp(c)
        ks == IF Mk(c,"K") \in pos.cr /\ b[At(4,h)] = Mk(c,"K") /\ b[At(7,h)] = Mk(c,"R")
                 /\ b[At(5,h)] = "." /\ b[At(6,h)] = "."
                 /\ ~Attacked(b, At(4,h), o) /\ ~Attacked(b, At(5,h), o) /\ ~Attacked(b, At(6,h), o)
              THEN { M(At(4,h), At(6,h), "") } ELSE {}
        qs == IF Mk(c,"Q") \in pos.cr /\ b[At(4,h)] = Mk(c,"K") /\ b[At(0,h)] = Mk(c,"R")
                 /\ b[At(1,h)] = "." /\ b[At(2,h)] = "." /\ b[At(3,h)] = "."
                 /\ ~Attacked(b, At(4,h), o) /\ ~Attacked(b, At(3,h), o) /\ ~Attacked(b, At(2,h), o)
              THEN { M(At(4,h), At(2,h), "") } ELSE {}
    IN ks \cup qs

Legal(pos) ==
    { m \in Pseudo(pos) : LET nb == BoardAfter(pos, m) IN ~Attacked(nb, KingSq(nb, pos.turn), Opp(pos.turn)) }
    \cup CastleMoves(pos)

\* game status as the property words it: checkmate, then draw, then check, then running
Classify(pos) ==
    LET none == Legal(pos) = {}  chk == InCheck(pos) IN
    IF none /\ chk THEN "checkmate"
    ELSE IF none \/ pos.hm >= 100 THEN "draw"
    ELSE IF chk THEN "check" ELSE "running"
ClassifyWith(legal, chk, hm) ==
    IF legal = {} /\ chk THEN "checkmate"
    ELSE IF legal = {} \/ hm >= 100 THEN "draw"
    ELSE IF chk THEN "check" ELSE "running"

\* moves that deliver checkmate at once
MateMoves(pos) == { m \in Legal(pos) : LET n == Apply(pos, m) IN InCheck(n) /\ Legal(n) = {} }

\* pieces (of either colour) that stand alone between the mover's king and an enemy slider
\* aimed at it; this is the "pin/shield" set the move generator relies on
RECURSIVE Second(_,_,_,_)
Second(b, r, i, seen) == IF i > Len(r) THEN <<-1,-1>> ELSE
    IF b[r[i]] = "." THEN Second(b, r, i+1, seen)
    ELSE IF seen = -1 THEN Second(b, r, i+1, r[i]) ELSE <<seen, r[i]>>
Blockers(pos) ==
    LET b == pos.b  c == pos.turn  k == KingSq(b, c)  o == Opp(c)
        one(d, kinds) == LET p == Second(b, Ray[k][d], 1, -1) IN
                         IF p[1] # -1 /\ b[p[2]] \in kinds THEN {p[1]} ELSE {}
    IN UNION { one(d, {Mk(o,"R"), Mk(o,"Q")}) : d \in RookDirs }
       \cup UNION { one(d, {Mk(o,"B"), Mk(o,"Q")}) : d \in BishopDirs }

(***************************************************************************)
(* Playable positions (the contract of the parser and the builder, C06).   *)
(***************************************************************************)
CountColor(b, c) == Cardinality({ s \in Sq : ColorOf(b[s]) = c })
RightsOK(pos) ==
    /\ ("K" \in pos.cr => pos.b[4] = "K" /\ pos.b[7] = "R")
    /\ ("Q" \in pos.cr => pos.b[4] = "K" /\ pos.b[0] = "R")
    /\ ("k" \in pos.cr => pos.b[60] = "k" /\ pos.b[63] = "r")
    /\ ("q" \in pos.cr => pos.b[60] = "k" /\ pos.b[56] = "r")
EpOK(pos) ==
    pos.ep # -1 => /\ pos.b[At(pos.ep, EpRank(pos.turn))] = "."
                   /\ pos.b[At(pos.ep, EpPawnRank(pos.turn))] = Mk(Opp(pos.turn), "P")
OpponentNotInCheck(pos) == ~Attacked(pos.b, KingSq(pos.b, Opp(pos.turn)), pos.turn)
ValidPosition(pos) ==
    /\ OneKingEach(pos.b)
    /\ CountColor(pos.b, "w") <= 16 /\ CountColor(pos.b, "b") <= 16
    /\ OpponentNotInCheck(pos)
    /\ RightsOK(pos)
    /\ EpOK(pos)
\* which clause fails first ("" when valid); used to label findings
InvalidReason(pos) ==
    IF ~OneKingEach(pos.b) THEN "kings"
    ELSE IF CountColor(pos.b, "w") > 16 \/ CountColor(pos.b, "b") > 16 THEN "count"
    ELSE IF ~OpponentNotInCheck(pos) THEN "opponent-in-check"
    ELSE IF ~RightsOK(pos) THEN "rights"
    ELSE IF ~EpOK(pos) THEN "ep" ELSE ""

(***************************************************************************)
(* Colour mirror (C13): swap colours, flip ranks.                          *)
(***************************************************************************)
FlipSq(s) == At(FileOf(s), 7 - RankOf(s))
MirrorRight(x) == CASE x = "K" -> "k" [] x = "Q" -> "q" [] x = "k" -> "K" [] x = "q" -> "Q"
Mirror(pos) == [ b |-> [s \in Sq |-> SwapCase(pos.b[FlipSq(s)])], turn |-> Opp(pos.turn),
                 cr |-> { MirrorRight(x) : x \in pos.cr }, ep |-> pos.ep, hm |-> pos.hm, fm |-> pos.fm ]
MirrorMove(m) == M(FlipSq(m.from), FlipSq(m.to), m.promo)

(***************************************************************************)
(* Move codes: the wire format shared with the harness.                    *)
(***************************************************************************)
PromoIdx(p) == CASE p = "" -> 0 [] p = "N" -> 1 [] p = "B" -> 2 [] p = "R" -> 3 [] p = "Q" -> 4
PromoOfIdx == <<"", "N", "B", "R", "Q">>
Code(m) == m.from * 320 + m.to * 5 + PromoIdx(m.promo)
Decode(c) == M(c \div 320, (c % 320) \div 5, PromoOfIdx[(c % 5) + 1])
Codes(ms) == { Code(m) : m \in ms }

(***************************************************************************)
(* Standard start.                                                          *)
(***************************************************************************)
StdBoard == [s \in Sq |->
    LET r == RankOf(s)  f == FileOf(s)  back == <<"R","N","B","Q","K","B","N","R">> IN
    CASE r = 0 -> back[f+1] [] r = 1 -> "P" [] r = 6 -> "p" [] r = 7 -> Mk("b", back[f+1]) [] OTHER -> "."]
StdPos == [b |-> StdBoard, turn |-> "w", cr |-> {"K","Q","k","q"}, ep |-> -1, hm |-> 0, fm |-> 0]

(***************************************************************************)
(* Preconditions of the implementation's unchecked operations (C07),       *)
(* stated on the abstract position.                                         *)
(***************************************************************************)
\* number of entries the generator's fixed-capacity list needs: one per piece that has a legal
\* ordinary move, plus one per pawn that can capture en passant
EntryDemand(pos) ==
    LET L == Legal(pos)
        ord == { m.from : m \in { m \in L : ~IsEp(pos, m) } }
        eps == { m.from : m \in { m \in L : IsEp(pos, m) } }
    IN Cardinality(ord) + Cardinality(eps)
=============================================================================
