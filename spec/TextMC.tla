------------------------------- MODULE TextMC -------------------------------
(* C19 (parsers): the harness records, for each parser, the graph of the function it computes
   over a complete finite domain; TLC recomputes the graph from Text.tla and compares. *)
EXTENDS Text, TLC, Json, IOUtils, TLCExt

Rec == ndJsonDeserialize(IOEnv.VERIF_TRACE)
SeqToSet(s) == { s[i] : i \in 1..Len(s) }
VARIABLES l, bad
vars == <<l, bad>>
Fail(name, ok) == IF ok THEN {} ELSE {name}
Report(B) == \A c \in B : PrintT(<<"BAD", ToJson([line |-> l, prop |-> "C19", check |-> c])>>)

\* accepted : sequence of <<input bytes..., value>> entries; expected graph over the domain
Graph1(f(_)) == { <<b, f(b)>> : b \in { b \in Byte : f(b) # -1 } }
Strings(A, n) == [1..n -> A]

Checks(e) ==
    IF e.ev = "byte_parsers" THEN
         Fail("file-bytes", SeqToSet(e.file) = Graph1(FileOfByte))
         \cup Fail("rank-bytes", SeqToSet(e.rank) = Graph1(RankOfByte))
         \cup Fail("piece-bytes", SeqToSet(e.piece) = Graph1(PieceOfByte))
         \cup Fail("promotion-bytes", SeqToSet(e.promo) = Graph1(PromoOfByte))
    ELSE IF e.ev = "pos_parser" THEN    \* all 65536 two-byte strings
         Fail("pos-2-bytes", SeqToSet(e.accepted) =
              { <<a, b, PosOfBytes(<<a, b>>)>> : a \in { a \in Byte : FileOfByte(a) # -1 }, b \in { b \in Byte : RankOfByte(b) # -1 } })
         \cup Fail("pos-2-bytes-count", e.tried = 65536)
    ELSE IF e.ev = "move_parser" THEN   \* all strings of length n over the logged alphabet
         LET A == SeqToSet(e.alphabet)
             exp == { s \in Strings(A, e.n) : MoveOfBytes(s)[1] # -1 }
         IN Fail("move-strings", { <<x.s, x.from, x.to>> : x \in SeqToSet(e.accepted) }
                                 = { <<s, MoveOfBytes(s)[1], MoveOfBytes(s)[2]>> : s \in exp })
            \cup Fail("move-strings-count", e.tried = Cardinality(A) ^ e.n)
    ELSE IF e.ev = "random_strings" THEN
         Fail("random-strings", \A i \in 1..Len(e.cases) : LET c == e.cases[i] IN
              /\ c.pos = PosOfBytes(c.s) /\ <<c.from, c.to>> = MoveOfBytes(c.s)
              /\ c.file = (IF Len(c.s) = 1 THEN FileOfByte(c.s[1]) ELSE -1)
              /\ c.rank = (IF Len(c.s) = 1 THEN RankOfByte(c.s[1]) ELSE -1)
              /\ c.piece = (IF Len(c.s) = 1 THEN PieceOfByte(c.s[1]) ELSE -1)
              /\ c.promo = (IF Len(c.s) = 1 THEN PromoOfByte(c.s[1]) ELSE -1)
              /\ ("str_agrees" \in DOMAIN c => c.str_agrees))
    ELSE IF e.ev = "display" THEN
         Fail("file-text", \A f \in 0..7 : e.file[f + 1] = FileText(f))
         \cup Fail("rank-text", \A r \in 0..7 : e.rank[r + 1] = RankText(r))
         \cup Fail("pos-text", \A p \in 0..63 : e.pos[p + 1] = PosText(p))
         \cup Fail("text-round-trip", \A p \in 0..63 : PosOfBytes(PosText(p)) = p)
         \cup Fail("move-text", \A i \in 1..Len(e.moves) : LET m == e.moves[i] IN
                    m.text = MoveText(m.from, m.to) /\ m.back_from = m.from /\ m.back_to = m.to
                    /\ MoveOfBytes(m.text) = <<m.from, m.to>>)
    ELSE IF e.ev = "coords" THEN
         Fail("coords", \A p \in 0..63 : LET c == e.pos[p + 1] IN
                    /\ c.file = FileOf(p) /\ c.rank = RankOf(p) /\ c.new = PosNew(FileOf(p), RankOf(p))
                    /\ c.idx = p /\ c.from_u8 = p
                    /\ c.up = Up(p) /\ c.down = Down(p) /\ c.left = Left(p) /\ c.right = Right(p)
                    /\ c.flip = FlipRank(p))
         \cup Fail("from_u8-range", e.from_u8_none = 256 - 64 /\ e.file_from_u8_none = 256 - 8 /\ e.rank_from_u8_none = 256 - 8)
         \cup Fail("file-rank-steps", \A i \in 0..7 : LET c == e.line[i + 1] IN
                    /\ c.fleft = (IF i = 0 THEN -1 ELSE i - 1) /\ c.fright = (IF i = 7 THEN -1 ELSE i + 1)
                    /\ c.rdown = (IF i = 0 THEN -1 ELSE i - 1) /\ c.rup = (IF i = 7 THEN -1 ELSE i + 1)
                    /\ c.rflip = 7 - i /\ c.lower = 97 + i /\ c.upper = 65 + i)
    ELSE {"unknown-event"}

Case == /\ l <= Len(Rec)
        /\ LET B == Checks(Rec[l]) IN Report(B) /\ bad' = B
        /\ l' = l + 1
Init == l = 1 /\ bad = {}
Spec == Init /\ [][Case]_vars
C19 == bad = {}
Accepted == /\ PrintT(<<"DONE", ToJson([lines |-> Len(Rec), consumed |-> TLCGet("stats").diameter - 1])>>)
            /\ TLCGet("stats").diameter - 1 = Len(Rec)
=============================================================================
