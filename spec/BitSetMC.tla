------------------------------ MODULE BitSetMC ------------------------------
(***************************************************************************)
(* C18: behaviour generation (one case per line, replayed into BitBoard)   *)
(* and validation of cases recorded from the implementation on seeded      *)
(* random boards.  Also the algebraic laws the set model must satisfy       *)
(* (ASSUMEs, evaluated by TLC at start-up on the family).                   *)
(***************************************************************************)
EXTENDS BitSet, TLC, Json, IOUtils, TLCExt

SetToSeq(S) == Ascending(S)
SeqToSet(s) == { s[i] : i \in 1..Len(s) }

Singles == { {s} : s \in Sq }
Pairs == { {s, t} : s \in Sq, t \in Sq }
Lines == { FromFile(f) : f \in 0..7 } \cup { FromRank(r) : r \in 0..7 }
FamilyU == {Empty, Full} \cup Singles \cup Pairs \cup Lines            \* unary operations
FamilyB == {Empty, Full} \cup Singles \cup Lines                       \* binary operations (pairs of these)
Slice == atoi(IOEnv.VERIF_SLICE)       \* quick tier: pairs {s,t} with (s+t) % VERIF_SLICES = slice
Slices == atoi(IOEnv.VERIF_SLICES)
InSlice(S) == Cardinality(S) # 2 \/ (Min(S) + Min(S \ {Min(S)})) % Slices = Slice

Unary(S) == [ bb |-> SetToSeq(S), not |-> SetToSeq(Not(S)), up |-> SetToSeq(ShiftUp(S)), down |-> SetToSeq(ShiftDown(S)),
              left |-> SetToSeq(ShiftLeft(S)), right |-> SetToSeq(ShiftRight(S)), flip |-> SetToSeq(FlipRanks(S)),
              count |-> Count(S), any |-> Any(S), none |-> None(S), all |-> All(S), some |-> Some(S),
              pop |-> PopResult(S), poprest |-> SetToSeq(PopRest(S)), iter |-> Ascending(S),
              nth |-> [ n \in 1..(Count(S) + 2) |-> [r |-> NthResult(S, n - 1), rest |-> SetToSeq(NthRest(S, n - 1))] ] ]
Binary(S, T) == [ a |-> SetToSeq(S), b |-> SetToSeq(T), or |-> SetToSeq(Or(S, T)), and |-> SetToSeq(And(S, T)),
                  xor |-> SetToSeq(Xor(S, T)), diff |-> SetToSeq(Diff(S, T)) ]

\* algebraic sanity of the model itself
ASSUME \A S \in Lines \cup Singles : Not(Not(S)) = S /\ FlipRanks(FlipRanks(S)) = S
ASSUME \A S \in Singles : ShiftLeft(ShiftRight(S)) \subseteq S /\ ShiftDown(ShiftUp(S)) \subseteq S
ASSUME ShiftRight(FromFile(7)) = {} /\ ShiftLeft(FromFile(0)) = {} /\ ShiftUp(FromRank(7)) = {} /\ ShiftDown(FromRank(0)) = {}
ASSUME \A f \in 0..6 : ShiftRight(FromFile(f)) = FromFile(f + 1)
ASSUME \A r \in 0..6 : ShiftUp(FromRank(r)) = FromRank(r + 1)

VARIABLES kind, x, y
vars == <<kind, x, y>>
Init == \/ kind = "u" /\ x \in { S \in FamilyU : InSlice(S) } /\ y = {}
        \/ kind = "b" /\ x \in FamilyB /\ y \in FamilyB
Next == UNCHANGED vars
Spec == Init /\ [][Next]_vars
EmitInv == IF kind = "u" THEN PrintT(<<"BBU", ToJson(Unary(x))>>) ELSE PrintT(<<"BBB", ToJson(Binary(x, y))>>)
=============================================================================
