SPECIFICATION Spec
VIEW View
INVARIANT EmitUnderPromoMates
CHECK_DEADLOCK FALSE
