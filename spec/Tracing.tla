------------------------------- MODULE Tracing -------------------------------
(***************************************************************************)
(* C20: the per-thread tracing override.  State: one global flag, and per  *)
(* thread a local override ("G" = follow the global flag, "E" = enabled,   *)
(* "D" = disabled) and at most one saved override (take / restore).         *)
(* A thread's view is its override if it has one, else the global flag.     *)
(* Each operation is one atomic step (it touches the shared flag at most    *)
(* once), so interleaving whole operations of two threads is complete.      *)
(* One line is printed per generated transition, with the path to its       *)
(* source state (a history variable hidden by VIEW): one replayable         *)
(* behaviour per transition of the state graph.                             *)
(***************************************************************************)
EXTENDS Integers, Sequences, TLC, Json

Threads == {1, 2}
VARIABLES global, local, saved, path
vars == <<global, local, saved, path>>

View(t) == IF local[t] = "G" THEN global ELSE local[t] = "E"
Flip(x) == CASE x = "E" -> "D" [] x = "D" -> "E" [] OTHER -> "G"

Ops == {"enable", "disable", "toggle", "local_enable", "local_disable", "local_toggle", "take", "restore", "is_enabled"}
Enabled(t, op) == op # "restore" \/ saved[t] # "none"

GlobalAfter(op) == CASE op = "enable" -> TRUE [] op = "disable" -> FALSE [] op = "toggle" -> ~global [] OTHER -> global
LocalAfter(t, op) == CASE op \in {"enable", "local_enable"} -> "E"
                       [] op \in {"disable", "local_disable"} -> "D"
                       [] op \in {"toggle", "local_toggle"} -> Flip(local[t])
                       [] op = "take" -> "G"
                       [] op = "restore" -> saved[t]
                       [] OTHER -> local[t]
SavedAfter(t, op) == CASE op = "take" -> local[t] [] op = "restore" -> "none" [] OTHER -> saved[t]

Do(t, op) ==
    /\ Enabled(t, op)
    /\ global' = GlobalAfter(op)
    /\ local' = [local EXCEPT ![t] = LocalAfter(t, op)]
    /\ saved' = [saved EXCEPT ![t] = SavedAfter(t, op)]
    /\ path' = Append(path, [t |-> t, op |-> op,
                             v1 |-> (IF local'[1] = "G" THEN global' ELSE local'[1] = "E"),
                             v2 |-> (IF local'[2] = "G" THEN global' ELSE local'[2] = "E")])

Init == global = TRUE /\ local = [t \in Threads |-> "G"] /\ saved = [t \in Threads |-> "none"] /\ path = <<>>
Next == \E t \in Threads, op \in Ops : Do(t, op)
Spec == Init /\ [][Next]_vars
ViewOf == <<global, local, saved>>

TypeOK == global \in BOOLEAN /\ local \in [Threads -> {"G", "E", "D"}] /\ saved \in [Threads -> {"none", "G", "E", "D"}]
\* a thread with an override sees the override; one without sees the latest global setting
ViewInv == \A t \in Threads : (local[t] = "E" => View(t)) /\ (local[t] = "D" => ~View(t)) /\ (local[t] = "G" => View(t) = global)
\* operations of one thread never change another thread's override (or its saved override)
NonInterference == [][\A t \in Threads : (path' # path /\ path'[Len(path')].t # t) => (local'[t] = local[t] /\ saved'[t] = saved[t])]_vars
\* saving and later restoring returns the override to the saved state
RestoreRoundTrip == [][(path' # path /\ path'[Len(path')].op = "restore") =>
                          LET t == path'[Len(path')].t IN local'[t] = saved[t]]_vars

EmitTransition == PrintT(<<"TRC", ToJson([path |-> path'])>>)
=============================================================================
