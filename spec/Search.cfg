CONSTANTS
  Moves = {m1, m2, m3, m4}
  Caps = {m1, m2}
  MaxPass = 3
SPECIFICATION Spec
INVARIANT ReturnsLegalOrNone
INVARIANT NoneWhenNoMoves
INVARIANT MoveAfterFirstPass
INVARIANT ScoreHasMove
PROPERTY NoCommitAfterExpiry
PROPERTY Terminates
CHECK_DEADLOCK FALSE
