------------------------------ MODULE AlphaBeta ------------------------------
(***************************************************************************)
(* Design-level model of the engine's alpha-beta (chess-engine: alphabeta  *)
(* and the root loop of search_with) on abstract game trees: every inner   *)
(* node starts from its side's worst score, adopts a child's value when it *)
(* is strictly better, narrows alpha (White) or beta (Black) and stops at  *)
(* beta <= alpha; the root never cuts off.  Scores are those of Score.tla  *)
(* (the proved total order), including the sentinels as starting values.   *)
(* TLC checks, for EVERY assignment of leaf values from a small set to the *)
(* trees of the configured shapes, that the root value equals the minimax  *)
(* value and that the chosen root move attains it - i.e. the pruning is    *)
(* sound and the committed score of a pass is the exact depth-limited      *)
(* value (the fact C12 and C13 rest on).                                    *)
(***************************************************************************)
EXTENDS Score, Sequences, FiniteSets, TLC

CONSTANTS B1, B2, B3     \* branching per level (White moves at the root)
Shape == <<B1, B2, B3>>
CONSTANT Rich            \* TRUE: seven leaf values, FALSE: five
Vals == IF Rich THEN { Sc("bm", 1), Sc("bm", 2), Sc("raw", -5), Sc("raw", 0), Sc("raw", 5), Sc("wm", 2), Sc("wm", 1) }
        ELSE { Sc("bm", 1), Sc("raw", -5), Sc("raw", 0), Sc("raw", 5), Sc("wm", 1) }

Leaves == Shape[1] * Shape[2] * Shape[3]
VARIABLE leaf
Init == leaf \in [1..Leaves -> Vals]
Next == UNCHANGED leaf
Spec == Init /\ [][Next]_leaf

Le(a, b) == ~Lt(b, a)
\* node at `level` (1 = root, White to move at odd levels) covering leaves first..first+width-1
RECURSIVE Minimax(_,_,_), AB(_,_,_,_,_), Loop(_,_,_,_,_,_,_)
Width(level) == IF level = 1 THEN Leaves ELSE IF level = 2 THEN Shape[2] * Shape[3] ELSE IF level = 3 THEN Shape[3] ELSE 1
Side(level) == IF level % 2 = 1 THEN "w" ELSE "b"
Minimax(level, first, dummy) ==
    IF level = 4 THEN leaf[first]
    ELSE LET kids == [i \in 1..Shape[level] |-> Minimax(level + 1, first + (i - 1) * Width(level + 1), 0)]
             best(S) == CHOOSE x \in S : \A y \in S : IF Side(level) = "w" THEN Le(y, x) ELSE Le(x, y)
         IN best({ kids[i] : i \in 1..Shape[level] })

\* children loop of one node: returns <<score, index of the adopted child>>
Loop(level, first, i, alpha, beta, score, pick) ==
    IF i > Shape[level] THEN <<score, pick>>
    ELSE LET new == AB(level + 1, first + (i - 1) * Width(level + 1), alpha, beta, 0)[1]
             better == Better(Side(level), score, new)
             s2 == IF better THEN new ELSE score
             p2 == IF better THEN i ELSE pick
             a2 == IF Side(level) = "w" THEN MaxOf(s2, alpha) ELSE alpha
             b2 == IF Side(level) = "b" THEN MinOf(s2, beta) ELSE beta
         IN IF level > 1 /\ Le(b2, a2) THEN <<s2, p2>>          \* cut-off (never at the root)
            ELSE Loop(level, first, i + 1, a2, b2, s2, p2)
AB(level, first, alpha, beta, dummy) ==
    IF level = 4 THEN <<leaf[first], 0>>
    ELSE Loop(level, first, 1, alpha, beta, Worst(Side(level)), 0)

RootExact == Eq(AB(1, 1, Min, Max, 0)[1], Minimax(1, 1, 0))
RootMoveAttains == LET r == AB(1, 1, Min, Max, 0) IN
                   r[2] \in 1..Shape[1] /\ Eq(Minimax(2, 1 + (r[2] - 1) * Width(2), 0), Minimax(1, 1, 0))
=============================================================================
