--------------------------------- MODULE Abi ---------------------------------
(***************************************************************************)
(* C16: the stable-ABI mirrors of moves and scores.  A move is (from, to,  *)
(* promotion) with promotion \in 0..4 (0 = none, 1..4 = N B R Q, the code   *)
(* points of the repr(u8) piece enum); the two mirror enums add the code    *)
(* points None = 5 and (for optional moves) Illegal = 6, the latter being   *)
(* the encoding of "no move".  Encoding followed by decoding must be the    *)
(* identity, and "no move" must not collide with any move.                  *)
(***************************************************************************)
EXTENDS Integers, Sequences, FiniteSets, TLC, Json, IOUtils, TLCExt

NoneCode == 5
IllegalCode == 6
EncPromo(p) == IF p = 0 THEN NoneCode ELSE p
DecPromo(c) == IF c = NoneCode THEN 0 ELSE c
\* optional move: <<from, to, promo code>>; absent = <<0, 0, IllegalCode>>
EncOpt(m) == IF m = -1 THEN <<0, 0, IllegalCode>> ELSE << m \div 320, (m % 320) \div 5, EncPromo(m % 5) >>
DecOpt(e) == IF e[3] = IllegalCode THEN -1 ELSE e[1] * 320 + e[2] * 5 + DecPromo(e[3])
Moves == 0..20479

\* model-level: lossless and collision-free (evaluated by TLC at start-up)
ASSUME \A m \in Moves \cup {-1} : DecOpt(EncOpt(m)) = m
ASSUME Cardinality({ EncOpt(m) : m \in Moves \cup {-1} }) = 20481
ASSUME \A p \in 0..4 : DecPromo(EncPromo(p)) = p /\ EncPromo(p) # IllegalCode

(* binding: what the implementation returns for every input, recorded by the harness *)
Rec == ndJsonDeserialize(IOEnv.VERIF_TRACE)
VARIABLES l, bad, seenMoves, seenMates
vars == <<l, bad, seenMoves, seenMates>>
Fail(name, ok) == IF ok THEN {} ELSE {name}
Report(B) == \A c \in B : PrintT(<<"BAD", ToJson([line |-> l, prop |-> "C16", check |-> c])>>)

Block ==
    /\ l <= Len(Rec)
    /\ LET e == Rec[l]
           B == IF e.ev = "moves" THEN
                    \* rows: <<code, back through StableChessMove, back through EvaluatedMove>>
                    Fail("move-round-trip", \A i \in 1..Len(e.rows) : e.rows[i][2] = e.rows[i][1] /\ e.rows[i][3] = e.rows[i][1])
                    \cup Fail("move-block-domain", { e.rows[i][1] : i \in 1..Len(e.rows) } = (e.from * 320)..(e.from * 320 + 319))
                ELSE IF e.ev = "absent" THEN Fail("absent-move-stays-absent", e.back = -1 /\ e.back_with_scores)
                ELSE IF e.ev = "mates" THEN
                    Fail("mate-distance-round-trip", \A i \in 1..Len(e.back) : e.back[i] = [k |-> e.kind, v |-> e.start + i - 1])
                ELSE IF e.ev = "raws" THEN
                    Fail("raw-score-round-trip", \A i \in 1..Len(e.rows) : e.rows[i][2] = [k |-> "raw", v |-> e.rows[i][1]])
                ELSE IF e.ev = "pairs" THEN
                    \* rows: <<code, move that came back, score that came back>> for one score paired with many moves
                    Fail("move-lost-or-changed-next-to-a-score", \A i \in 1..Len(e.rows) : e.rows[i][2] = e.rows[i][1])
                    \cup Fail("score-changed-next-to-a-move", \A i \in 1..Len(e.rows) : e.rows[i][3] = e.score)
                ELSE IF e.ev = "sentinels" THEN Fail("sentinel-round-trip", e.min.k = "min" /\ e.max.k = "max")
                ELSE {"unknown-event"}
       IN /\ Report(B) /\ bad' = B
          /\ seenMoves' = IF e.ev = "moves" THEN seenMoves \cup {e.from} ELSE seenMoves
          /\ seenMates' = IF e.ev = "mates" THEN seenMates + Len(e.back) ELSE seenMates
    /\ l' = l + 1
Init == l = 1 /\ bad = {} /\ seenMoves = {} /\ seenMates = 0
Spec == Init /\ [][Block]_vars
C16 == bad = {}
Accepted == /\ PrintT(<<"DONE", ToJson([lines |-> Len(Rec), consumed |-> TLCGet("stats").diameter - 1])>>)
            /\ TLCGet("stats").diameter - 1 = Len(Rec)
=============================================================================
