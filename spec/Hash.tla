------------------------------- MODULE Hash ------------------------------
(***************************************************************************)
(* Layer R: the position hash (C04) as a function of the position only:    *)
(* xor of one key per (piece, colour, square), one per side to move, one   *)
(* per en-passant file if a marker is set, one per castling-rights set.    *)
(* The key table is exported from the running implementation (794 u64      *)
(* values as four 16-bit limbs, TLC integers being 32 bit) and read here.  *)
(***************************************************************************)
EXTENDS Chess, Bitwise, Json, IOUtils

KEYS == JsonDeserialize(IOEnv.VERIF_KEYS)
\* KEYS.piece["P"][s+1], KEYS.turn["w"], KEYS.ep[f+1], KEYS.cr[i+1]  (each <<l0,l1,l2,l3>>)

XorL(a, b) == << a[1] ^^ b[1], a[2] ^^ b[2], a[3] ^^ b[3], a[4] ^^ b[4] >>
Zero4 == <<0,0,0,0>>

RightsIndex(cr) == (IF "K" \in cr THEN 1 ELSE 0) + (IF "Q" \in cr THEN 2 ELSE 0)
                   + (IF "k" \in cr THEN 4 ELSE 0) + (IF "q" \in cr THEN 8 ELSE 0)

RECURSIVE PieceXor(_,_,_)
PieceXor(b, s, acc) == IF s = 64 THEN acc
                       ELSE PieceXor(b, s+1, IF b[s] = "." THEN acc ELSE XorL(acc, KEYS.piece[b[s]][s+1]))
PieceHash(b) == PieceXor(b, 0, Zero4)

Zobrist(pos) ==
    XorL(XorL(PieceHash(pos.b), KEYS.turn[pos.turn]),
         XorL(IF pos.ep = -1 THEN Zero4 ELSE KEYS.ep[pos.ep + 1], KEYS.cr[RightsIndex(pos.cr) + 1]))

\* second sentence of C04: all 794 keys pairwise distinct and non-zero
AllKeys == [ i \in 1..794 |->
    IF i <= 768 THEN LET j == i - 1  p == <<"P","N","B","R","Q","K","p","n","b","r","q","k">>[(j \div 64) + 1]
                     IN KEYS.piece[p][(j % 64) + 1]
    ELSE IF i <= 770 THEN KEYS.turn[<<"w","b">>[i - 768]]
    ELSE IF i <= 778 THEN KEYS.ep[i - 770]
    ELSE KEYS.cr[i - 778] ]
KeysDistinctNonZero ==
    /\ \A i \in 1..794 : AllKeys[i] # Zero4
    /\ Cardinality({ AllKeys[i] : i \in 1..794 }) = 794
=============================================================================
