CONSTANTS
  B1 = 2
  B2 = 2
  B3 = 2
  Rich = FALSE
SPECIFICATION Spec
INVARIANT RootExact
INVARIANT RootMoveAttains
CHECK_DEADLOCK FALSE
