SPECIFICATION Spec
INVARIANT TypeOK
PROPERTY StepRefines
PROPERTY NonInterferenceFine
CHECK_DEADLOCK FALSE
