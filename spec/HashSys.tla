------------------------------ MODULE HashSys ------------------------------
(***************************************************************************)
(* Layer S for C04: the hash as the implementation maintains it            *)
(* (chess-movegen/src/lib.rs).  The board carries a PIECE hash - the xor   *)
(* of the keys of the men on it - that is updated square by square while a *)
(* move is applied (Board::xor: mover off its source and on its            *)
(* destination, the captured man off, a promoted pawn replaced, the pawn   *)
(* taken en passant off its own square, the castling rook hopped); the     *)
(* keys of the side to move, the en-passant file and the castling rights   *)
(* are folded in only when the hash is read (Board::zobrist).              *)
(* HashSysMC checks, over the game state machine, that the incrementally   *)
(* maintained value is the from-scratch value of layer R (Hash.tla) in     *)
(* every reachable state: the design of the incremental scheme is right.   *)
(* The code is tied to it by the C04 checks proper (observed hash =        *)
(* Zobrist(pos) on every position, moved = rebuilt).                       *)
(***************************************************************************)
EXTENDS Hash

Key(letter, s) == KEYS.piece[letter][s + 1]
Toggle(h, letter, s) == XorL(h, Key(letter, s))

\* the piece hash after move m is applied to pos, given the piece hash h of pos
IncPieceHash(pos, m, h) ==
    LET b == pos.b  c == pos.turn
        mover == b[m.from]
        h1 == Toggle(Toggle(h, mover, m.from), mover, m.to)                          \* xor(turn, piece, from|to)
        h2 == IF b[m.to] # "." THEN Toggle(h1, b[m.to], m.to) ELSE h1               \* captured man off
        h3 == IF m.promo # "" THEN Toggle(Toggle(h2, mover, m.to), Mk(c, m.promo), m.to) ELSE h2
        h4 == IF IsEp(pos, m) THEN Toggle(h3, Mk(Opp(c), "P"), At(FileOf(m.to), RankOf(m.from))) ELSE h3
        h5 == IF IsCastle(pos, m)
              THEN IF FileOf(m.to) = 6 THEN Toggle(Toggle(h4, Mk(c, "R"), At(7, HomeRank(c))), Mk(c, "R"), At(5, HomeRank(c)))
                                        ELSE Toggle(Toggle(h4, Mk(c, "R"), At(0, HomeRank(c))), Mk(c, "R"), At(3, HomeRank(c)))
              ELSE h4
    IN h5

\* what Board::zobrist() returns for a board with piece hash h
ReadHash(pos, h) == XorL(XorL(h, KEYS.turn[pos.turn]),
                         XorL(IF pos.ep = -1 THEN Zero4 ELSE KEYS.ep[pos.ep + 1], KEYS.cr[RightsIndex(pos.cr) + 1]))
=============================================================================
