----------------------------- MODULE MoveGenSys -----------------------------
(***************************************************************************)
(* Layer S: the move generator and the incremental check/pin bookkeeping   *)
(* as the implementation computes them (chess-movegen/src/iter/pieces.rs,  *)
(* iter.rs: collect_moves; lib.rs: update_pin_info, move_unchecked_into),   *)
(* transcribed on sets of squares.  Table lookups are replaced by their     *)
(* definitions in Geometry.tla (justified by C08 / C09).                    *)
(*                                                                         *)
(*   SysCaches(pos)        checkers and pinned computed from scratch        *)
(*   SysMoveCaches(pos, m) the same two sets as updated incrementally by    *)
(*                         the move m (on the successor position)           *)
(*   SysEntries(pos)       the generator's entry list <<src, dests, promo>> *)
(*   SysLegal(pos)         the moves those entries stand for                *)
(* MoveGenSysMC checks  SysLegal = Legal,  SysMoveCaches = SysCaches of the *)
(* successor = (Checkers, Blockers) of layer R, and the capacity of the     *)
(* entry list, on explored positions.                                       *)
(***************************************************************************)
EXTENDS Geometry

OccOf(b) == { s \in Sq : b[s] # "." }
Of(b, c) == { s \in Sq : ColorOf(b[s]) = c }
KindSet(b, k) == { s \in Sq : KindOf(b[s]) = k }
DiagSliders(b, c) == { s \in Of(b, c) : KindOf(b[s]) \in {"B", "Q"} }
LineSliders(b, c) == { s \in Of(b, c) : KindOf(b[s]) \in {"R", "Q"} }

\* ---- update_pin_info: from scratch, for the side to move
SysCaches(pos) ==
    LET b == pos.b  c == pos.turn  o == Opp(c)  k == KingSq(b, c)  occ == OccOf(b)
        pinners == (DiagSliders(b, o) \cap BishopRays(k)) \cup (LineSliders(b, o) \cap RookRays(k))
        slidecheck == { p \in pinners : Between(k, p) \cap occ = {} }
        pins == UNION { Between(k, p) \cap occ : p \in { p \in pinners : Cardinality(Between(k, p) \cap occ) = 1 } }
        leap == { s \in KnightMoves(k) : b[s] = Mk(o, "N") } \cup { s \in PawnAttacks(c, k) : b[s] = Mk(o, "P") }
    IN [checkers |-> slidecheck \cup leap, pinned |-> pins]

\* ---- move_unchecked_into: the caches of the successor, updated incrementally by the move
SysMoveCaches(pos, m) ==
    LET b == pos.b  c == pos.turn  o == Opp(c)
        nb == BoardAfter(pos, m)
        ok == KingSq(b, o)                                  \* the opponent's king (it does not move)
        piece == KindOf(b[m.from])
        occ == OccOf(nb)
        direct == IF piece = "N" \/ (piece = "P" /\ m.promo = "N") THEN KnightMoves(ok) \cap {m.to}
                  ELSE IF piece = "P" /\ m.promo = "" THEN PawnAttacks(o, ok) \cap {m.to}
                  ELSE {}
        attackers == (DiagSliders(nb, c) \cap BishopRays(ok)) \cup (LineSliders(nb, c) \cap RookRays(ok))
        slidecheck == { p \in attackers : Between(ok, p) \cap occ = {} }
        pins == UNION { Between(ok, p) \cap occ : p \in { p \in attackers : Cardinality(Between(ok, p) \cap occ) = 1 } }
    IN [checkers |-> direct \cup slidecheck, pinned |-> pins]

\* ---- is_legal_king_position(dest): the king lifted off its square
KingSafeAt(pos, c, dest) ==
    LET b == pos.b  o == Opp(c)  k == KingSq(b, c)  occ == OccOf(b) \ {k}
        sl == (DiagSliders(b, o) \cap BishopRays(dest)) \cup (LineSliders(b, o) \cap RookRays(dest))
    IN /\ \A p \in sl : Between(dest, p) \cap occ # {}
       /\ { s \in KingMoves(dest) : b[s] = Mk(o, "K") } = {}
       /\ { s \in KnightMoves(dest) : b[s] = Mk(o, "N") } = {}
       /\ { s \in PawnAttacks(c, dest) : b[s] = Mk(o, "P") } = {}

\* ---- collect_moves
SysEntries(pos) ==
    LET b == pos.b  c == pos.turn  o == Opp(c)  k == KingSq(b, c)  occ == OccOf(b)
        own == Of(b, c)  notown == Sq \ own
        ca == SysCaches(pos)
        nchk == Cardinality(ca.checkers)
        inchk == nchk = 1
        checker == CHOOSE x \in ca.checkers : TRUE
        cmask == IF inchk THEN Between(k, checker) \cup ca.checkers ELSE Sq
        pseudo(kind, s) == CASE kind = "N" -> KnightMoves(s) \cap notown
                             [] kind = "B" -> RayAttack(s, occ, BishopDirs) \cap notown
                             [] kind = "R" -> RayAttack(s, occ, RookDirs) \cap notown
                             [] kind = "Q" -> RayAttack(s, occ, 1..8) \cap notown
                             [] kind = "P" -> PawnMovesOcc(c, s, occ) \cap notown
        entry(s, d, pr) == <<s, d, pr>>
        seventh == IF c = "w" THEN 6 ELSE 1
        \* one piece kind: unpinned pieces in square order, then (not in check, not knights) the pinned ones
        forKind(kind) ==
            LET pcs == { s \in own : KindOf(b[s]) = kind }
                free == SortedSq(pcs \ ca.pinned)
                held == IF inchk \/ kind = "N" THEN <<>> ELSE SortedSq(pcs \cap ca.pinned)
                e1 == [i \in 1..Len(free) |-> entry(free[i], pseudo(kind, free[i]) \cap cmask, kind = "P" /\ RankOf(free[i]) = seventh)]
                e2 == [i \in 1..Len(held) |-> entry(held[i], pseudo(kind, held[i]) \cap Line(held[i], k), kind = "P" /\ RankOf(held[i]) = seventh)]
            IN SelectSeq(e1 \o e2, LAMBDA e : e[2] # {})
        \* en passant (after the repairs): decided on the occupancy after the capture
        epEntries ==
            IF pos.ep = -1 THEN <<>> ELSE
            LET prank == EpPawnRank(c)  dest == At(pos.ep, EpRank(c))  victim == At(pos.ep, prank)
                cands == SortedSq({ s \in own : b[s] = Mk(c, "P") /\ RankOf(s) = prank /\ (FileOf(s) = pos.ep - 1 \/ FileOf(s) = pos.ep + 1) })
                safe(s) == LET occ2 == ((occ \ {s, victim}) \cup {dest}) IN
                           (RayAttack(k, occ2, RookDirs) \cap LineSliders(b, o)) \cup (RayAttack(k, occ2, BishopDirs) \cap DiagSliders(b, o)) = {}
            IN IF victim \in cmask \/ dest \in cmask
               THEN SelectSeq([i \in 1..Len(cands) |-> entry(cands[i], IF safe(cands[i]) THEN {dest} ELSE {}, FALSE)], LAMBDA e : e[2] # {})
               ELSE <<>>
        \* the king: steps to safe squares; castling when not in check
        kingEntry ==
            LET steps == { d \in KingMoves(k) \cap notown : KingSafeAt(pos, c, d) }
                h == HomeRank(c)
                ks == IF nchk = 0 /\ Mk(c, "K") \in pos.cr /\ {At(5, h), At(6, h)} \cap occ = {}
                         /\ KingSafeAt(pos, c, At(5, h)) /\ KingSafeAt(pos, c, At(6, h)) THEN {At(6, h)} ELSE {}
                qs == IF nchk = 0 /\ Mk(c, "Q") \in pos.cr /\ {At(1, h), At(2, h), At(3, h)} \cap occ = {}
                         /\ KingSafeAt(pos, c, At(2, h)) /\ KingSafeAt(pos, c, At(3, h)) THEN {At(2, h)} ELSE {}
                \* the implementation toggles (xor) the castling destination into the set
                all == (steps \ (ks \cup qs)) \cup ((ks \cup qs) \ steps)
            IN IF all = {} THEN <<>> ELSE << entry(k, all, FALSE) >>
    IN IF nchk >= 2 THEN kingEntry
       ELSE forKind("P") \o epEntries \o forKind("N") \o forKind("B") \o forKind("R") \o forKind("Q") \o kingEntry

EntryMoves(e) == IF e[3] THEN { M(e[1], d, p) : d \in e[2], p \in Promos } ELSE { M(e[1], d, "") : d \in e[2] }
SysLegal(pos) == LET es == SysEntries(pos) IN UNION { EntryMoves(es[i]) : i \in 1..Len(es) }
=============================================================================
