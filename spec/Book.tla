-------------------------------- MODULE Book --------------------------------
(***************************************************************************)
(* C17: the opening book as a state machine.  The trie is exported from    *)
(* the implementation through its public iterator (dense node numbers,     *)
(* node 1 = root; NODES[n] = sequence of <<source, destination, child>>).  *)
(* A state is a trie node together with the position reached from the      *)
(* standard start by the moves on the path to it (layer R: Chess.tla).     *)
(* TLC explores every node; the invariants say that every outgoing edge    *)
(* is a legal, promotion-free move there and that every leaf is at depth   *)
(* BookDepth.  One line per node carries the specification's FEN text so   *)
(* that the harness's own walk (through move_new) can be compared.         *)
(***************************************************************************)
EXTENDS Fen, Json, IOUtils

BOOK == JsonDeserialize(IOEnv.VERIF_BOOK)      \* [nodes |-> <<...>>, depth |-> 8]
NODES == BOOK.nodes
BookDepth == BOOK.depth

VARIABLES node, pos, depth
vars == <<node, pos, depth>>

EdgeMove(e) == M(e[1], e[2], "")
Init == node = 1 /\ pos = StdPos /\ depth = 0
Follow(e) == /\ EdgeMove(e) \in Legal(pos)
             /\ node' = e[3] /\ pos' = Apply(pos, EdgeMove(e)) /\ depth' = depth + 1
Next == \E i \in 1..Len(NODES[node]) : Follow(NODES[node][i])
Spec == Init /\ [][Next]_vars

EdgesLegal == \A i \in 1..Len(NODES[node]) : EdgeMove(NODES[node][i]) \in Legal(pos)
\* traversal terminates: no path is longer than the bound (the book shipped today has every leaf at
\* depth 8; that number is reported, not demanded - the property does not fix it)
LeafDepth == depth <= BookDepth
ChildrenInside == \A i \in 1..Len(NODES[node]) : NODES[node][i][3] \in 2..Len(NODES)
EmitInv == PrintT(<<"BOOK", ToJson([node |-> node, depth |-> depth, fen |-> ToFEN(pos)])>>)
=============================================================================
