------------------------------ MODULE BookSys ------------------------------
(***************************************************************************)
(* Layer S for C17: the opening-book DECODER as the code implements it,    *)
(* over the raw table of 16-bit words (chess-lookup/src/lib.rs,            *)
(* `BookMovesIter::next`; encoder: chess-lookup-generator/src/eco_book.rs, *)
(* `encode`).                                                              *)
(*                                                                         *)
(* Layout (found by reading the encoder).  The list of replies of a node   *)
(* is a run of records, laid out at ascending indices and read backwards:  *)
(*                                                                         *)
(*     0  <records of the replies to m>  word(m)  len                      *)
(*     ^ terminator of m's own reply list          ^ the iterator's index  *)
(*                                                                         *)
(* `len` counts the cells from the terminator up to and including the move *)
(* word, so the previous sibling's `len` cell (or the terminator of the    *)
(* list being read) is at index - (len + 1), and the reply list of m       *)
(* starts at index - 2.  A `BookMoves` value is the index of the last      *)
(* `len` cell of its list (or of a terminator, for a leaf).                *)
(*                                                                         *)
(* The state machine below is the decoder: one state per (list, cursor)    *)
(* pair the public iterator can be in, starting from the two nodes the     *)
(* safe API hands out (root and the empty book).  `Sibling` is one call of *)
(* `next` that returns a move; `Child` starts the iteration of the         *)
(* returned move's `children`.  TLC visits every reachable cursor.         *)
(*                                                                         *)
(* What is checked here is about the table and the algorithm:              *)
(*   InTable       every cell `next` reads exists (index, index-1), the    *)
(*                 child index (index-2) and the next cursor are inside    *)
(*   Decreasing    every step strictly decreases the cursor: traversal     *)
(*                 from any reachable node terminates (action property)    *)
(*   OwnTerminator a list ends at the terminator that belongs to it        *)
(*                 (it does not run on into the records of a neighbour)    *)
(*   Nested        the cursor never leaves the region of the list's owner  *)
(*   MoveWords     the cell below a `len` cell is a move word (marker bit  *)
(*                 set, two different squares)                             *)
(*   RefinesExport the moves decoded here are, list by list and in order,  *)
(*                 the moves the code's public iterator yielded (EXPORT),  *)
(*                 so `Book.tla` (layer R legality of every line) speaks   *)
(*                 about the same trie this decoder reads                  *)
(* InTable and Decreasing are C17's "terminates and stays inside the       *)
(* table".  The other four tie the model to the code and to the encoder;   *)
(* a disagreement there is reported as drift, not as a violation.          *)
(***************************************************************************)
EXTENDS Naturals, Sequences, Json, IOUtils, TLC

RAW == JsonDeserialize(IOEnv.VERIF_BOOKRAW)   \* [table, root, empty, index]
EXPORT == JsonDeserialize(IOEnv.VERIF_BOOK).nodes  \* node id -> << <<src, dst, child id>>, ... >>
Size == Len(RAW.table)
T(i) == RAW.table[i + 1]                      \* the code's BOOK[i]
INDEX == RAW.index                            \* node id -> table index its iterator starts at

VARIABLES id, cur, lo, k
\* id: dense number of the node whose list is being read; cur: the iterator's index; lo: the
\* index of the terminator that belongs to this list; k: moves of this list yielded so far
vars == <<id, cur, lo, k>>

Src(w) == w % 64
Dst(w) == (w \div 64) % 64
Marked(w) == w >= 32768

Init == \/ id = 1 /\ cur = RAW.root /\ lo = 0 /\ k = 0
        \/ id = 0 /\ cur = RAW.empty /\ lo = 0 /\ k = 0      \* EMPTY_BOOK_MOVES: no dense number

More == T(cur) # 0
\* `self.index = self.index.checked_sub(offset + 1)?` comes BEFORE the move is returned: with a `len`
\* larger than the index the call returns None and the record at the cursor is never yielded
Yields == More /\ cur >= T(cur) + 1
Sibling == /\ Yields
           /\ cur' = cur - (T(cur) + 1) /\ k' = k + 1 /\ UNCHANGED <<id, lo>>
Child == /\ Yields /\ cur >= 2
         /\ cur' = cur - 2 /\ lo' = cur - T(cur) /\ k' = 0
         /\ id' = (IF id > 0 /\ k + 1 <= Len(EXPORT[id]) THEN EXPORT[id][k + 1][3] ELSE 0)
Next == Sibling \/ Child
Spec == Init /\ [][Next]_vars

\* ---- C17: stays inside the table, terminates
InTable == /\ cur \in 0..(Size - 1)
           /\ More => cur >= 2                 \* BOOK[index - 1] is read, index - 2 is handed out
Decreasing == [][cur' < cur]_vars

\* ---- statements about the table and the binding to the code (drift, reported and counted)
Room == More => Yields /\ T(cur) >= 2
OwnTerminator == ~More => cur = lo
Nested == cur >= lo
MoveWords == More /\ cur >= 1 => Marked(T(cur - 1)) /\ Src(T(cur - 1)) # Dst(T(cur - 1))
RefinesExport ==
    id > 0 =>
      /\ INDEX[id] >= cur
      /\ k = 0 => INDEX[id] = cur
      /\ Yields /\ cur >= 2 => /\ k + 1 <= Len(EXPORT[id])
                               /\ EXPORT[id][k + 1][1] = Src(T(cur - 1))
                               /\ EXPORT[id][k + 1][2] = Dst(T(cur - 1))
                               /\ INDEX[EXPORT[id][k + 1][3]] = cur - 2
      /\ ~Yields => k = Len(EXPORT[id])
Note(kind) == PrintT(<<"BOOKSYS", ToJson([kind |-> kind, id |-> id, cur |-> cur, lo |-> lo, k |-> k,
                                            cell |-> T(cur), below |-> IF cur >= 1 THEN T(cur - 1) ELSE 0])>>)
Report == /\ Room \/ Note("Room")
          /\ OwnTerminator \/ Note("OwnTerminator")
          /\ Nested \/ Note("Nested")
          /\ MoveWords \/ Note("MoveWords")
          /\ RefinesExport \/ Note("RefinesExport")
=============================================================================
