---------------------------- MODULE SearchProofs ----------------------------
(***************************************************************************)
(* C11 on the control skeleton of the search (Search.tla), proved with     *)
(* TLAPS for every finite or infinite set of root moves, every set of      *)
(* captures and every bound on the number of passes (TLC checks the same   *)
(* module for four moves and three passes, and its liveness).              *)
(* Proved: the inductive invariant Inv, and from it                        *)
(*   - the result is a root move or none, none when there is no move;      *)
(*   - a score other than the sentinel comes with a move;                  *)
(*   - once a pass has been committed and moves exist there is a move;     *)
(*   - nothing is adopted once the limit has expired (action property).    *)
(***************************************************************************)
EXTENDS Search, TLAPS

ASSUME NoneIsNoMove == None \notin Moves
ASSUME MaxPassNat == MaxPass \in Nat

Scores == Good \cup {Worst}
PCs == {"begin", "prev", "caps", "quiet", "bottom", "ret"}
TypeOK == /\ pc \in PCs /\ depth \in Nat /\ commits \in Nat /\ expired \in BOOLEAN
          /\ best \in Moves \cup {None} /\ cur \in Moves \cup {None}
          /\ bestScore \in Scores /\ curScore \in Scores /\ todo \subseteq Moves

Inv == /\ TypeOK
       /\ (cur = None) <=> (curScore = Worst)
       /\ (best = None) <=> (bestScore = Worst)
       /\ pc = "prev" => (best # None /\ todo = Moves /\ cur = None /\ curScore = Worst)
       /\ (pc \in {"caps", "quiet", "bottom"} /\ ~expired /\ todo # Moves) => cur # None
       /\ (pc = "bottom" /\ ~expired) => todo = {}
       /\ (commits >= 1 /\ Moves # {}) => best # None

LEMMA GoodFacts == /\ \A s \in Good : s # Worst /\ Worst < s /\ s \in Int
                   /\ Worst \in Int
  BY DEF Good, Worst, Mate

THEOREM InitInv == Init => Inv
  BY GoodFacts, NoneIsNoMove DEF Init, Inv, TypeOK, PCs, Scores, None

\* what one evaluation of a root move m (a move, not None) does to the candidate
LEMMA EvalStep ==
  ASSUME NEW m \in Moves, NEW a, NEW b, a # b, TypeOK, (cur = None) <=> (curScore = Worst), Eval(m, a, b)
  PROVE  /\ expired' \in BOOLEAN /\ cur' \in Moves \cup {None} /\ curScore' \in Scores
         /\ (cur' = None) <=> (curScore' = Worst)
         /\ pc' \in {a, b} /\ (pc' = b => ~expired') /\ (~expired' => pc' = b) /\ (expired => expired')
         /\ (~expired' => cur' # None)
<1> USE GoodFacts, NoneIsNoMove DEF Eval, TypeOK, Scores
<1>1. PICK e \in (IF expired THEN {TRUE} ELSE BOOLEAN) :
          /\ expired' = e
          /\ IF e THEN /\ UNCHANGED <<cur, curScore>> /\ pc' = a
                  ELSE /\ \E s \in Good : IF curScore < s THEN cur' = m /\ curScore' = s ELSE UNCHANGED <<cur, curScore>>
                       /\ pc' = b
  OBVIOUS
<1>2. CASE e = TRUE
  BY <1>1, <1>2
<1>3. CASE e = FALSE
  <2>1. PICK s \in Good : IF curScore < s THEN cur' = m /\ curScore' = s ELSE UNCHANGED <<cur, curScore>>
    BY <1>1, <1>3
  <2>2. ~expired
    BY <1>1, <1>3
  <2>3. CASE curScore < s
    BY <1>1, <1>3, <2>1, <2>2, <2>3
  <2>4. CASE ~(curScore < s)
    <3>1. curScore # Worst
      BY <2>4 DEF Good, Worst, Mate
    <3> QED BY <1>1, <1>3, <2>1, <2>2, <2>4, <3>1
  <2> QED BY <2>3, <2>4
<1> QED BY <1>1, <1>2, <1>3

THEOREM StepInv == Inv /\ [Next]_vars => Inv'
<1> SUFFICES ASSUME Inv, [Next]_vars PROVE Inv'
  OBVIOUS
<1> USE GoodFacts, NoneIsNoMove, MaxPassNat
<1>1. CASE Begin
  BY <1>1 DEF Begin, Inv, TypeOK, PCs, Scores
<1>2. CASE Prev
  <2>1. best \in Moves /\ todo = Moves /\ cur = None /\ curScore = Worst /\ pc = "prev"
    BY <1>2 DEF Prev, Inv, TypeOK
  <2>2. Eval(best, "ret", "caps") /\ todo' = todo \ {best} /\ UNCHANGED <<depth, best, bestScore, commits>>
    BY <1>2 DEF Prev
  <2>3. /\ expired' \in BOOLEAN /\ cur' \in Moves \cup {None} /\ curScore' \in Scores
        /\ (cur' = None) <=> (curScore' = Worst)
        /\ pc' \in {"ret", "caps"} /\ (pc' = "caps" => ~expired') /\ (~expired' => cur' # None)
    BY <2>1, <2>2, EvalStep DEF Inv
  <2> QED BY <2>1, <2>2, <2>3 DEF Inv, TypeOK, PCs, Scores
<1>3. CASE CapsA
  <2>1. pc = "caps" /\ UNCHANGED <<depth, best, bestScore, commits>>
    BY <1>3 DEF CapsA
  <2>2. CASE todo \cap Caps = {}
    BY <1>3, <2>1, <2>2 DEF CapsA, Inv, TypeOK, PCs, Scores
  <2>3. CASE todo \cap Caps # {}
    <3>1. PICK m \in todo \cap Caps : todo' = todo \ {m} /\ Eval(m, "quiet", "caps")
      BY <1>3, <2>3 DEF CapsA
    <3>2. m \in Moves
      BY <3>1 DEF Inv, TypeOK
    <3>3. /\ expired' \in BOOLEAN /\ cur' \in Moves \cup {None} /\ curScore' \in Scores
          /\ (cur' = None) <=> (curScore' = Worst)
          /\ pc' \in {"quiet", "caps"} /\ (~expired' => cur' # None)
      BY <3>1, <3>2, EvalStep DEF Inv
    <3> QED BY <2>1, <3>1, <3>2, <3>3 DEF Inv, TypeOK, PCs, Scores
  <2> QED BY <2>2, <2>3
<1>4. CASE Quiet
  <2>1. pc = "quiet" /\ UNCHANGED <<depth, best, bestScore, commits>>
    BY <1>4 DEF Quiet
  <2>2. CASE todo = {}
    BY <1>4, <2>1, <2>2 DEF Quiet, Inv, TypeOK, PCs, Scores
  <2>3. CASE todo # {}
    <3>1. PICK m \in todo : todo' = todo \ {m} /\ Eval(m, "bottom", "quiet")
      BY <1>4, <2>3 DEF Quiet
    <3>2. m \in Moves
      BY <3>1 DEF Inv, TypeOK
    <3>3. /\ expired' \in BOOLEAN /\ cur' \in Moves \cup {None} /\ curScore' \in Scores
          /\ (cur' = None) <=> (curScore' = Worst)
          /\ pc' \in {"bottom", "quiet"} /\ (pc' = "quiet" => ~expired') /\ (~expired' => pc' = "quiet") /\ (~expired' => cur' # None)
      BY <3>1, <3>2, EvalStep DEF Inv
    <3> QED BY <2>1, <3>1, <3>2, <3>3 DEF Inv, TypeOK, PCs, Scores
  <2> QED BY <2>2, <2>3
<1>5. CASE Bottom
  <2>1. pc = "bottom" /\ UNCHANGED <<cur, curScore, todo>>
    BY <1>5 DEF Bottom
  <2>2. PICK e \in (IF expired THEN {TRUE} ELSE BOOLEAN) :
          /\ expired' = e
          /\ IF e THEN pc' = "ret" /\ UNCHANGED <<best, bestScore, depth, commits>>
             ELSE /\ best' = cur /\ bestScore' = curScore /\ depth' = depth + 1 /\ commits' = commits + 1
                  /\ pc' = IF curScore = Mate \/ commits' >= MaxPass THEN "ret" ELSE "begin"
    BY <1>5 DEF Bottom
  <2>3. CASE e = TRUE
    BY <2>1, <2>2, <2>3 DEF Inv, TypeOK, PCs, Scores
  <2>4. CASE e = FALSE
    <3>1. ~expired /\ todo = {}
      BY <2>1, <2>2, <2>4 DEF Inv, TypeOK
    <3>2. Moves # {} => cur # None
      BY <2>1, <3>1 DEF Inv
    <3> QED BY <2>1, <2>2, <2>4, <3>1, <3>2 DEF Inv, TypeOK, PCs, Scores
  <2> QED BY <2>2, <2>3, <2>4
<1>6. CASE UNCHANGED vars
  BY <1>6 DEF vars, Inv, TypeOK, PCs, Scores
<1> QED BY <1>1, <1>2, <1>3, <1>4, <1>5, <1>6 DEF Next

THEOREM Safety == Spec => []Inv
  BY InitInv, StepInv, PTL DEF Spec

\* the C11 statements of Search.tla follow from the invariant
THEOREM C11OnTheSkeleton == Inv => /\ ReturnsLegalOrNone /\ NoneWhenNoMoves /\ MoveAfterFirstPass /\ ScoreHasMove
  BY NoneIsNoMove DEF Inv, TypeOK, ReturnsLegalOrNone, NoneWhenNoMoves, MoveAfterFirstPass, ScoreHasMove

\* nothing is adopted once the limit has expired
THEOREM NoAdoptionAfterExpiry == [Next]_vars /\ expired => UNCHANGED <<best, bestScore, commits>>
  BY DEF Next, vars, Begin, Prev, CapsA, Quiet, Bottom
=============================================================================
