--------------------------------- MODULE Bot ---------------------------------
(***************************************************************************)
(* C15 at the design level: the plugin over an abstract position graph.    *)
(*                                                                         *)
(* Layer R (contract): the plugin holds a position and the list of         *)
(* positions produced by accepted moves since the board was set; a move is *)
(* applied iff it is an edge of the graph from the current position; the   *)
(* flag is raised exactly when the new position now occurs three times.    *)
(* Layer S (as implemented): a table position -> counter (a small          *)
(* saturating counter, CounterMax models u8::MAX), flag = counter == 3     *)
(* after incrementing.                                                      *)
(* TLC explores all call sequences (set_board / make_move legal or         *)
(* illegal) to the depth bound on a small graph with cycles (so positions  *)
(* repeat) and checks that the implementation's flag and position equal    *)
(* the contract's, that illegal moves are stutter steps, and that the      *)
(* counter never exceeds its maximum.                                      *)
(***************************************************************************)
EXTENDS Integers, Sequences, FiniteSets
CONSTANTS Positions, Edges, CounterMax, MaxCalls
\* Edges \subseteq Positions \X Positions; a "move" is named by its target position

VARIABLES cur, hist,            \* contract
          tcur, table,          \* implementation
          flagR, flagS, validR, validS, calls
vars == <<cur, hist, tcur, table, flagR, flagS, validR, validS, calls>>

Occ(h, p) == Cardinality({ i \in 1..Len(h) : h[i] = p })
Sat(n) == IF n >= CounterMax THEN CounterMax ELSE n + 1

Init == /\ cur \in Positions /\ hist = <<>> /\ tcur = cur /\ table = [p \in Positions |-> 0]
        /\ flagR = FALSE /\ flagS = FALSE /\ validR = TRUE /\ validS = TRUE /\ calls = 0

SetBoard(p) == /\ cur' = p /\ hist' = <<>> /\ tcur' = p /\ table' = [q \in Positions |-> 0]
               /\ flagR' = FALSE /\ flagS' = FALSE /\ validR' = TRUE /\ validS' = TRUE

MakeMove(t) ==
    LET legalR == <<cur, t>> \in Edges
        legalS == <<tcur, t>> \in Edges
        h2 == IF legalR THEN Append(hist, t) ELSE hist
        c2 == Sat(table[t])
    IN /\ cur' = (IF legalR THEN t ELSE cur)
       /\ hist' = h2
       /\ validR' = legalR
       /\ flagR' = (legalR /\ Occ(h2, t) = 3)
       /\ tcur' = (IF legalS THEN t ELSE tcur)
       /\ table' = (IF legalS THEN [table EXCEPT ![t] = c2] ELSE table)
       /\ validS' = legalS
       /\ flagS' = (legalS /\ c2 = 3)

Next == /\ calls < MaxCalls /\ calls' = calls + 1
        /\ \/ \E p \in Positions : SetBoard(p)
           \/ \E t \in Positions : MakeMove(t)
Spec == Init /\ [][Next]_vars

SamePosition == tcur = cur
SameAnswers == flagS = flagR /\ validS = validR
CounterBounded == \A p \in Positions : table[p] <= CounterMax
\* the table is the history count (up to saturation)
TableIsHistory == \A p \in Positions : table[p] = (IF Occ(hist, p) >= CounterMax THEN CounterMax ELSE Occ(hist, p))
IllegalIsStutter == [][(~validR') => (cur' = cur /\ hist' = hist)]_vars
=============================================================================
