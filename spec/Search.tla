------------------------------- MODULE Search -------------------------------
(***************************************************************************)
(* The control skeleton of the iterative-deepening search (C11), one       *)
(* action per critical section of `search_with`:                           *)
(*   Begin   a pass starts: candidate reset, move list regenerated         *)
(*   Prev    the previous best move is searched first (break => return)    *)
(*   Caps    captures are searched (break => fall through to Quiet)        *)
(*   Quiet   remaining moves are searched (break => fall to Bottom)        *)
(*   Bottom  the limit is polled; expired => return without adopting the   *)
(*           pass; otherwise the candidate is committed, depth + 1, and a  *)
(*           mate score ends the search                                     *)
(* The tree search below a root move is an oracle: it returns some         *)
(* non-sentinel score unless the limit has expired.  The limit expires at  *)
(* a nondeterministic poll and stays expired.  Scores are abstracted to    *)
(* integers with a sentinel Worst and a value Mate (White root).           *)
(***************************************************************************)
EXTENDS Integers, FiniteSets, TLC
CONSTANTS Moves, Caps, MaxPass
None == "none"
Worst == -100
Mate == 99
Good == {-1, 0, 1, Mate}
VARIABLES pc, depth, best, bestScore, cur, curScore, todo, expired, commits
vars == <<pc, depth, best, bestScore, cur, curScore, todo, expired, commits>>

Init == /\ pc = "begin" /\ depth = 0 /\ best = None /\ bestScore = Worst /\ cur = None /\ curScore = Worst
        /\ todo = {} /\ expired \in BOOLEAN /\ commits = 0

\* one tree search of root move m followed by the poll after it
Eval(m, onExpired, onOk) ==
    \E e \in (IF expired THEN {TRUE} ELSE BOOLEAN) :
      /\ expired' = e
      /\ IF e THEN /\ UNCHANGED <<cur, curScore>> /\ pc' = onExpired
              ELSE /\ \E s \in Good : IF curScore < s THEN cur' = m /\ curScore' = s ELSE UNCHANGED <<cur, curScore>>
                   /\ pc' = onOk
Begin == /\ pc = "begin" /\ cur' = None /\ curScore' = Worst /\ todo' = Moves
         /\ pc' = IF best # None THEN "prev" ELSE "caps"
         /\ UNCHANGED <<depth, best, bestScore, expired, commits>>
Prev ==  /\ pc = "prev" /\ todo' = todo \ {best}
         /\ Eval(best, "ret", "caps") /\ UNCHANGED <<depth, best, bestScore, commits>>
CapsA == /\ pc = "caps"
         /\ IF todo \cap Caps = {} THEN pc' = "quiet" /\ UNCHANGED <<cur, curScore, todo, expired>>
            ELSE \E m \in todo \cap Caps : todo' = todo \ {m} /\ Eval(m, "quiet", "caps")
         /\ UNCHANGED <<depth, best, bestScore, commits>>
Quiet == /\ pc = "quiet"
         /\ IF todo = {} THEN pc' = "bottom" /\ UNCHANGED <<cur, curScore, todo, expired>>
            ELSE \E m \in todo : todo' = todo \ {m} /\ Eval(m, "bottom", "quiet")
         /\ UNCHANGED <<depth, best, bestScore, commits>>
Bottom == /\ pc = "bottom"
          /\ \E e \in (IF expired THEN {TRUE} ELSE BOOLEAN) :
             /\ expired' = e
             /\ IF e THEN pc' = "ret" /\ UNCHANGED <<best, bestScore, depth, commits>>
                ELSE /\ best' = cur /\ bestScore' = curScore /\ depth' = depth + 1 /\ commits' = commits + 1
                     /\ pc' = IF curScore = Mate \/ commits' >= MaxPass THEN "ret" ELSE "begin"
          /\ UNCHANGED <<cur, curScore, todo>>
Next == Begin \/ Prev \/ CapsA \/ Quiet \/ Bottom
Spec == Init /\ [][Next]_vars /\ WF_vars(Next)

\* C11 on the skeleton
ReturnsLegalOrNone == pc = "ret" => best \in Moves \cup {None}
NoneWhenNoMoves == Moves = {} => best = None
MoveAfterFirstPass == (pc = "ret" /\ commits >= 1 /\ Moves # {}) => best # None
ScoreHasMove == (pc = "ret" /\ bestScore # Worst) => best # None
\* a pass that ran out of time is never adopted
NoCommitAfterExpiry == [][expired => UNCHANGED <<best, bestScore, commits>>]_vars
Terminates == <>(pc = "ret")
=============================================================================
