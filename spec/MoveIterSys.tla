---------------------------- MODULE MoveIterSys ----------------------------
(***************************************************************************)
(* Layer S: the move iterator as the implementation keeps it               *)
(* (chess-movegen/src/iter.rs after the repairs of KNOWN_FINDINGS.txt):    *)
(*   entries : list of [src, dests (set of squares), promo (BOOLEAN)]      *)
(*   idx     : cursor into the list (1-based; Len+1 = past the end)        *)
(*   mask    : current destination mask                                     *)
(*   pcur    : promotion pieces already yielded for the destination in      *)
(*             progress (0..3), pieces are yielded in the order Q R B N     *)
(* One operator per public method.  The module is checked against the      *)
(* contract MoveIter (layer R) by MoveIterSysMC: the abstraction Abs maps   *)
(* the entry list to the set of remaining moves.                            *)
(* Moves are codes from * 320 + to * 5 + piece (0 none, 1 N, 2 B, 3 R, 4 Q).*)
(***************************************************************************)
EXTENDS Integers, Sequences, FiniteSets

PieceOrder == <<4, 3, 2, 1>>            \* Queen, Rook, Bishop, Knight
MoveCode(src, dst, pc) == src * 320 + dst * 5 + pc
MinOf(S) == CHOOSE x \in S : \A y \in S : x <= y
Masked(e, mask) == e.dests \cap mask

\* skip entries that have nothing under the mask
RECURSIVE Skip(_,_,_)
Skip(entries, i, mask) == IF i <= Len(entries) /\ Masked(entries[i], mask) = {} THEN Skip(entries, i + 1, mask) ELSE i

\* next(): <<result or -1, entries', idx', pcur'>>
NextOp(entries, idx, mask, pcur) ==
    LET i == Skip(entries, idx, mask) IN
    IF i > Len(entries) THEN <<-1, entries, i, pcur>>
    ELSE LET e == entries[i]
             d == MinOf(Masked(e, mask))
         IN IF e.promo
            THEN LET pc == PieceOrder[pcur + 1]
                     last == pcur = 3
                     e2 == IF last THEN [e EXCEPT !.dests = @ \ {d}] ELSE e
                     done == last /\ (Masked(e, mask) \ {d}) = {}
                 IN << MoveCode(e.src, d, pc), [entries EXCEPT ![i] = e2], IF done THEN i + 1 ELSE i, IF last THEN 0 ELSE pcur + 1 >>
            ELSE LET e2 == [e EXCEPT !.dests = @ \ {d}]
                 IN << MoveCode(e.src, d, 0), [entries EXCEPT ![i] = e2], IF Masked(e2, mask) = {} THEN i + 1 ELSE i, pcur >>

\* len(): entries from the cursor on; promotions already yielded are subtracted once, at the
\* first promotion entry that still has a destination under the mask
RECURSIVE LenFrom(_,_,_,_)
LenFrom(entries, i, mask, pend) ==
    IF i > Len(entries) THEN 0
    ELSE LET e == entries[i]  n == Cardinality(Masked(e, mask)) IN
         IF n = 0 THEN LenFrom(entries, i + 1, mask, pend)
         ELSE IF e.promo THEN 4 * n - pend + LenFrom(entries, i + 1, mask, 0)
         ELSE n + LenFrom(entries, i + 1, mask, pend)
LenOp(entries, idx, mask, pcur) == LenFrom(entries, idx, mask, pcur)
IsEmptyOp(entries, idx, mask) == \A i \in idx..Len(entries) : Masked(entries[i], mask) = {}

\* set_mask(M): cursor back to the start; entries with a destination under M are moved to the
\* front, in order, by the swap loop of the implementation (two pointers: i scans, j is the next
\* free front slot; a hit at i is swapped with whatever stands at j)
Swap(a, i, j) == [a EXCEPT ![i] = a[j], ![j] = a[i]]
RECURSIVE Compact(_,_,_,_)
Compact(a, i, j, M) ==
    IF i > Len(a) THEN a
    ELSE IF a[i].dests \cap M # {} THEN Compact(IF i # j THEN Swap(a, i, j) ELSE a, i + 1, j + 1, M)
    ELSE Compact(a, i + 1, j, M)
SetMaskOp(entries, M) == Compact(entries, 1, 1, M)
RemoveOp(entries, M) == [i \in 1..Len(entries) |-> [entries[i] EXCEPT !.dests = @ \ M]]
RemoveMoveOp(entries, c) ==
    [i \in 1..Len(entries) |-> IF entries[i].src = c \div 320 THEN [entries[i] EXCEPT !.dests = @ \ {(c % 320) \div 5}] ELSE entries[i]]

\* abstraction to layer R: the set of moves the entry list still represents.  The promotion pieces
\* already yielded (pcur of them) belong to the first promotion entry, from the cursor on, that has
\* a destination under the mask, and to its lowest such destination: that is where next() will
\* take the next piece from and where len() subtracts them
RECURSIVE FirstPromo(_,_,_)
FirstPromo(entries, i, mask) == IF i > Len(entries) THEN 0
                                ELSE IF entries[i].promo /\ Masked(entries[i], mask) # {} THEN i
                                ELSE FirstPromo(entries, i + 1, mask)
InProgress(entries, idx, mask) ==
    LET i == FirstPromo(entries, idx, mask) IN
    IF i = 0 THEN <<-1, -1>> ELSE <<entries[i].src, MinOf(Masked(entries[i], mask))>>
Abs(entries, idx, mask, pcur) ==
    LET ip == InProgress(entries, idx, mask)
        gone == IF pcur = 0 \/ ip[1] = -1 THEN {} ELSE { MoveCode(ip[1], ip[2], PieceOrder[k]) : k \in 1..pcur }
    IN (UNION { IF entries[i].promo THEN { MoveCode(entries[i].src, d, pc) : d \in entries[i].dests, pc \in 1..4 }
                ELSE { MoveCode(entries[i].src, d, 0) : d \in entries[i].dests } : i \in 1..Len(entries) }) \ gone
=============================================================================
