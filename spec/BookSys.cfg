SPECIFICATION Spec
INVARIANTS InTable Report
PROPERTY Decreasing
CHECK_DEADLOCK FALSE
