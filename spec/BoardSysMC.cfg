SPECIFICATION Spec
INVARIANT AcceptsOnlyPlayable
INVARIANT AcceptsEveryPlayable
CHECK_DEADLOCK FALSE
