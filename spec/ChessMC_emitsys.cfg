SPECIFICATION Spec
VIEW View
INVARIANT EmitSysInv
CHECK_DEADLOCK FALSE
