------------------------------ MODULE ChessMC ------------------------------
(***************************************************************************)
(* The game as a state machine: pick a root, play legal moves.  Used for   *)
(*  - model checking layer R against itself (ValidPosition is inductive,   *)
(*    colour symmetry, list-capacity demand), and                           *)
(*  - behaviour generation: one JSON line per distinct position with the    *)
(*    path that reaches it and everything layer R prescribes there; the     *)
(*    harness replays each into the real code.                              *)
(* `path` is a history variable and is hidden from fingerprints by VIEW.    *)
(***************************************************************************)
EXTENDS Wire, MoveGenSys

ROOTS == JsonDeserialize(IOEnv.VERIF_ROOTS)     \* sequence of [name, tags, fen, pos]
Depth == atoi(IOEnv.VERIF_DEPTH)
\* root selection: indices (1-based) given as a JSON list
RootIdx == JsonDeserialize(IOEnv.VERIF_ROOTSEL)

VARIABLES pos, root, path
vars == <<pos, root, path>>

Init == \E i \in SeqToSet(RootIdx) : /\ root = i /\ pos = PosOfJson(ROOTS[i].pos) /\ path = <<>>
Next == /\ Len(path) < Depth
        /\ \E m \in Legal(pos) : /\ pos' = Apply(pos, m) /\ path' = Append(path, Code(m))
        /\ UNCHANGED root
Spec == Init /\ [][Next]_vars
View == <<pos, root>>

\* ---- layer R against itself
RootsValid == { i \in SeqToSet(RootIdx) :
                 LET p == PosOfJson(ROOTS[i].pos) IN
                 ~ValidPosition(p) /\ PrintT(<<"INVALID-ROOT", ROOTS[i].name, InvalidReason(p)>>) } = {}
ASSUME RootsValid
ValidInductive == ValidPosition(pos)
MirrorSymmetric == Codes(Legal(Mirror(pos))) = { Code(MirrorMove(m)) : m \in Legal(pos) }
NoSelfCheck == \A m \in Legal(pos) :
                  LET n == Apply(pos, m) IN Attackers(n.b, KingSq(n.b, pos.turn), n.turn) = {}
CapacityOK == EntryDemand(pos) <= 18
FenInjectiveHere == TRUE

\* ---- behaviour generation
Emit == PrintT(<<"POS", ToJson([root |-> root, name |-> ROOTS[root].name, path |-> path, exp |-> Expect(pos)])>>)
EmitInv == Emit
\* the same line with the layer-S entry list (conformance of MoveGenSys to the code: drift only)
SysEntriesJson == LET es == SysEntries(pos) IN [i \in 1..Len(es) |-> <<es[i][1], SortedSeq(es[i][2]), es[i][3]>>]
EmitSysInv == PrintT(<<"POS", ToJson([root |-> root, name |-> ROOTS[root].name, path |-> path, exp |-> Expect(pos),
                                        sys_entries |-> SysEntriesJson])>>)
\* for the search properties: the position, its colour mirror, its mate-in-one moves
NoPromoAtRoot == \A m \in Legal(pos) : m.promo = ""
EmitSearch == PrintT(<<"SPOS", ToJson([fen |-> ToFEN(pos), mirror |-> ToFEN(Mirror(pos)),
                                         mates |-> SortedSeq(Codes(MateMoves(pos))), nopromo |-> NoPromoAtRoot])>>)
=============================================================================
