SPECIFICATION Spec
VIEW View
INVARIANT EmitCaptureMates
CHECK_DEADLOCK FALSE
