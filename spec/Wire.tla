------------------------------- MODULE Wire ------------------------------
(***************************************************************************)
(* Wire format shared with the Rust harness (harness/src/proj.rs).         *)
(* JSON arrays arrive as 1-based sequences, objects as records.            *)
(***************************************************************************)
EXTENDS Fen, Hash

\* abstract position from its JSON form {b:[64], t, cr:[..], ep, hm, fm}
PosOfJson(j) == [ b |-> [s \in Sq |-> j.b[s+1]], turn |-> j.t,
                  cr |-> { j.cr[i] : i \in 1..Len(j.cr) }, ep |-> j.ep, hm |-> j.hm, fm |-> j.fm ]

RightsSeq(cr) == SelectSeq(<<"K","Q","k","q">>, LAMBDA x : x \in cr)
JsonOfPos(p) == [ b |-> [i \in 1..64 |-> p.b[i-1]], t |-> p.turn, cr |-> RightsSeq(p.cr),
                  ep |-> p.ep, hm |-> p.hm, fm |-> p.fm ]

SeqToSet(s) == { s[i] : i \in 1..Len(s) }
\* a sequence lists every element of set S exactly once
ExactlyOnce(s, S) == Len(s) = Cardinality(S) /\ SeqToSet(s) = S

RECURSIVE SortedSeq(_)
SortedSeq(S) == IF S = {} THEN <<>> ELSE
    LET m == CHOOSE x \in S : \A y \in S : x <= y IN <<m>> \o SortedSeq(S \ {m})

\* everything layer R prescribes for a position, in the harness's observation format
Expect(pos) ==
    LET L == Legal(pos)  chk == InCheck(pos) IN
    [ pos |-> JsonOfPos(pos), legals |-> SortedSeq(Codes(L)), chk |-> chk,
      st |-> ClassifyWith(L, chk, pos.hm), cks |-> SortedSeq(Checkers(pos)),
      pins |-> SortedSeq(Blockers(pos)), zob |-> Zobrist(pos), fen |-> ToFEN(pos) ]
=============================================================================
