------------------------------ MODULE BoardSys ------------------------------
(***************************************************************************)
(* Layer S: the board validation as implemented (chess-movegen/src/lib.rs: *)
(* Board::validate, after the repairs listed in KNOWN_FINDINGS.txt),       *)
(* transcribed rule by rule, and the FEN writer as implemented.            *)
(* BoardSysMC checks, over a family of small arbitrary assemblies, that     *)
(* the implemented validation accepts exactly the playable positions of     *)
(* layer R (ValidPosition).                                                 *)
(***************************************************************************)
EXTENDS MoveGenSys

HasKings(b) == Cardinality(KindSet(b, "K")) = 2 /\ Cardinality(KingSquares(b, "w")) = 1 /\ Cardinality(KingSquares(b, "b")) = 1
TooMany(b) == Cardinality(Of(b, "w")) > 16 \/ Cardinality(Of(b, "b")) > 16
\* validate_en_passant: the target square empty, an enemy pawn on the pawn rank of that file
SysEpOK(pos) == pos.ep = -1 \/
    ( /\ pos.b[At(pos.ep, EpRank(pos.turn))] = "."
      /\ pos.b[At(pos.ep, EpPawnRank(pos.turn))] # "."
      /\ ColorOf(pos.b[At(pos.ep, EpPawnRank(pos.turn))]) # pos.turn
      /\ KindOf(pos.b[At(pos.ep, EpPawnRank(pos.turn))]) = "P" )
\* validate_castle_rights: each right needs its rook at home; any right of a colour needs the king at home
SysRightsOK(pos) ==
    /\ ("Q" \in pos.cr => pos.b[0] = "R") /\ ("K" \in pos.cr => pos.b[7] = "R")
    /\ ("k" \in pos.cr => pos.b[63] = "r") /\ ("q" \in pos.cr => pos.b[56] = "r")
    /\ (pos.cr \cap {"K", "Q"} # {} => pos.b[4] = "K") /\ (pos.cr \cap {"k", "q"} # {} => pos.b[60] = "k")
\* validate_opponent_not_in_check: the attack test seen from the other side
SysOpponentOK(pos) == KingSafeAt([pos EXCEPT !.turn = Opp(pos.turn)], Opp(pos.turn), KingSq(pos.b, Opp(pos.turn)))

SysValidate(pos) == HasKings(pos.b) /\ ~TooMany(pos.b) /\ SysEpOK(pos) /\ SysRightsOK(pos) /\ SysOpponentOK(pos)
=============================================================================
