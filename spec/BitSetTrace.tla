----------------------------- MODULE BitSetTrace -----------------------------
(* impl -> spec for C18: each line is one case recorded from the implementation on a seeded
   random board (or pair); the specification recomputes every result. *)
EXTENDS BitSet, TLC, Json, IOUtils, TLCExt

Rec == ndJsonDeserialize(IOEnv.VERIF_TRACE)
SeqToSet(s) == { s[i] : i \in 1..Len(s) }
VARIABLES l, bad
vars == <<l, bad>>
Fail(name, ok) == IF ok THEN {} ELSE {name}
Report(B) == \A c \in B : PrintT(<<"BAD", ToJson([line |-> l, prop |-> "C18", check |-> c])>>)

UnaryChecks(e) ==
    LET S == SeqToSet(e.bb) IN
    Fail("not", SeqToSet(e.not) = Not(S)) \cup Fail("shift_up", SeqToSet(e.up) = ShiftUp(S))
    \cup Fail("shift_down", SeqToSet(e.down) = ShiftDown(S)) \cup Fail("shift_left", SeqToSet(e.left) = ShiftLeft(S))
    \cup Fail("shift_right", SeqToSet(e.right) = ShiftRight(S)) \cup Fail("flip_ranks", SeqToSet(e.flip) = FlipRanks(S))
    \cup Fail("count", e.count = Count(S)) \cup Fail("any", e.any = Any(S)) \cup Fail("none", e.none = None(S))
    \cup Fail("all", e.all = All(S)) \cup Fail("some", e.some = Some(S))
    \cup Fail("pop", e.pop = PopResult(S) /\ SeqToSet(e.poprest) = PopRest(S))
    \cup Fail("iter-ascending", e.iter = Ascending(S))
    \cup Fail("size_hint", e.hint_lo = Count(S) /\ e.hint_hi = Count(S))
    \cup Fail("contains", SeqToSet(e.members) = S)
    \cup Fail("collect", SeqToSet(e.collected) = S /\ SeqToSet(e.collected_bb) = S)
    \cup Fail("collect-overlapping-inputs", SeqToSet(e.collected_overlap) = S /\ SeqToSet(e.collected_dups) = S)
    \cup Fail("with-cleared", \A i \in 1..Len(e.wc) : LET w == e.wc[i] IN
                 SeqToSet(w.with) = With(S, w.sq) /\ SeqToSet(w.cleared) = Cleared(S, w.sq))
    \cup Fail("nth", \A i \in 1..Len(e.nth) : LET t == e.nth[i] IN
                 t.r = NthResult(S, t.n) /\ SeqToSet(t.rest) = NthRest(S, t.n) /\ t.hint = Cardinality(NthRest(S, t.n)))

BinaryChecks(e) ==
    LET S == SeqToSet(e.a)  T == SeqToSet(e.b) IN
    Fail("or", SeqToSet(e.or) = Or(S, T)) \cup Fail("and", SeqToSet(e.and) = And(S, T))
    \cup Fail("xor", SeqToSet(e.xor) = Xor(S, T)) \cup Fail("diff", SeqToSet(e.diff) = Diff(S, T))
    \cup Fail("assign-forms", e.assign_ok)

Case == /\ l <= Len(Rec)
        /\ LET e == Rec[l]
               B == IF e.ev = "unary" THEN UnaryChecks(e)
                    ELSE IF e.ev = "binary" THEN BinaryChecks(e)
                    ELSE IF e.ev = "ctor" THEN
                         Fail("from_pos", \A i \in 1..64 : SeqToSet(e.pos[i]) = FromPos(i - 1))
                         \cup Fail("from_file", \A i \in 1..8 : SeqToSet(e.file[i]) = FromFile(i - 1))
                         \cup Fail("from_rank", \A i \in 1..8 : SeqToSet(e.rank[i]) = FromRank(i - 1))
                         \cup Fail("empty-full", e.empty = <<>> /\ SeqToSet(e.full) = Full)
                    ELSE {"unknown-event"}
           IN Report(B) /\ bad' = B
        /\ l' = l + 1
Init == l = 1 /\ bad = {}
Spec == Init /\ [][Case]_vars
C18 == bad = {}
Accepted == /\ PrintT(<<"DONE", ToJson([lines |-> Len(Rec), consumed |-> TLCGet("stats").diameter - 1])>>)
            /\ TLCGet("stats").diameter - 1 = Len(Rec)
=============================================================================
