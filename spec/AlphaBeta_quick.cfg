CONSTANTS
  B1 = 3
  B2 = 2
  B3 = 1
  Rich = FALSE
SPECIFICATION Spec
INVARIANT RootExact
INVARIANT RootMoveAttains
CHECK_DEADLOCK FALSE
