------------------------------- MODULE Fen -------------------------------
(***************************************************************************)
(* Layer R: the canonical FEN text of a position (C05).  Strings are built *)
(* with \o and ToString, which TLC evaluates.                               *)
(***************************************************************************)
EXTENDS Chess

FileCh == <<"a","b","c","d","e","f","g","h">>
RunStr(n) == IF n > 0 THEN ToString(n) ELSE ""

RECURSIVE RankRun(_,_,_,_)
RankRun(b, r, f, run) ==
    IF f = 8 THEN RunStr(run)
    ELSE LET p == b[At(f, r)] IN
         IF p = "." THEN RankRun(b, r, f+1, run+1)
         ELSE RunStr(run) \o p \o RankRun(b, r, f+1, 0)

Placement(b) ==
    RankRun(b,7,0,0) \o "/" \o RankRun(b,6,0,0) \o "/" \o RankRun(b,5,0,0) \o "/" \o RankRun(b,4,0,0) \o "/" \o
    RankRun(b,3,0,0) \o "/" \o RankRun(b,2,0,0) \o "/" \o RankRun(b,1,0,0) \o "/" \o RankRun(b,0,0,0)

RightsStr(cr) ==
    IF cr = {} THEN "-"
    ELSE (IF "K" \in cr THEN "K" ELSE "") \o (IF "Q" \in cr THEN "Q" ELSE "") \o
         (IF "k" \in cr THEN "k" ELSE "") \o (IF "q" \in cr THEN "q" ELSE "")

\* the en-passant square is the one the capturing pawn lands on: rank 6 for White to move, 3 for Black
EpStr(pos) == IF pos.ep = -1 THEN "-" ELSE FileCh[pos.ep + 1] \o ToString(EpRank(pos.turn) + 1)

ToFEN(pos) ==
    Placement(pos.b) \o " " \o pos.turn \o " " \o RightsStr(pos.cr) \o " " \o EpStr(pos) \o " " \o
    ToString(pos.hm) \o " " \o ToString(pos.fm)

SqName(s) == FileCh[FileOf(s) + 1] \o ToString(RankOf(s) + 1)
=============================================================================
