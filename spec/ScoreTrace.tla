----------------------------- MODULE ScoreTrace -----------------------------
(* C14 binding: the implementation's comparison operators on a grid of scores, validated pair by
   pair against the order of Score.tla (which ScoreProofs.tla proves to be a strict total order of
   the stated shape).  A relation that agrees with a strict total order on every pair of a set is
   that order on the set, so triples need not be enumerated. *)
EXTENDS Score, Sequences, TLC, Json, IOUtils, TLCExt

Rec == ndJsonDeserialize(IOEnv.VERIF_TRACE)
VARIABLES l, bad
vars == <<l, bad>>
Fail(name, ok) == IF ok THEN {} ELSE {name}
Report(B) == \A c \in B : PrintT(<<"BAD", ToJson([line |-> l, prop |-> "C14", check |-> c])>>)
S(j) == Sc(j.k, j.v)

RowChecks(a, r) ==
    LET b == S(r.b)  c == Cmp(a, b) IN
    Fail("cmp", r.cmp = c) \cup Fail("partial_cmp", r.pcmp = c) \cup Fail("eq", r.eq = Eq(a, b))
    \cup Fail("lt", r.lt = Lt(a, b)) \cup Fail("le", r.le = ~Lt(b, a)) \cup Fail("gt", r.gt = Lt(b, a)) \cup Fail("ge", r.ge = ~Lt(a, b))
    \cup Fail("max", Eq(S(r.max), MaxOf(a, b))) \cup Fail("min", Eq(S(r.min), MinOf(a, b)))
    \cup Fail("eq-vs-cmp", r.eq = (r.cmp = 0))

Block == /\ l <= Len(Rec)
         /\ LET e == Rec[l]
                B == UNION { RowChecks(S(e.a), e.rows[i]) : i \in 1..Len(e.rows) }
            IN Report(B) /\ bad' = B
         /\ l' = l + 1
Init == l = 1 /\ bad = {}
Spec == Init /\ [][Block]_vars
C14 == bad = {}
Accepted == /\ PrintT(<<"DONE", ToJson([lines |-> Len(Rec), consumed |-> TLCGet("stats").diameter - 1])>>)
            /\ TLCGet("stats").diameter - 1 = Len(Rec)
=============================================================================
