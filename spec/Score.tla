------------------------------- MODULE Score -------------------------------
(***************************************************************************)
(* Layer R for C14: the order on search scores.  A score is a record       *)
(* [k, v] with k one of "min", "bm" (black mates in v), "raw" (numeric v), *)
(* "wm" (white mates in v), "max".  From White's point of view:            *)
(*   min < every black mate < every raw < every white mate < max,          *)
(*   a farther black mate is greater than a nearer one,                     *)
(*   raw scores order by value,                                            *)
(*   a nearer white mate is greater than a farther one.                    *)
(* The order is proved to be a strict total order for all payloads in      *)
(* ScoreProofs.tla (TLAPS).                                                 *)
(***************************************************************************)
EXTENDS Integers

Kinds == {"min", "bm", "raw", "wm", "max"}
Rank(k) == CASE k = "min" -> 0 [] k = "bm" -> 1 [] k = "raw" -> 2 [] k = "wm" -> 3 [] k = "max" -> 4
Sc(k, v) == [k |-> k, v |-> v]
Min == Sc("min", 0)
Max == Sc("max", 0)

Lt(a, b) ==
    IF a.k # b.k THEN Rank(a.k) < Rank(b.k)
    ELSE CASE a.k = "bm" -> a.v < b.v
           [] a.k = "raw" -> a.v < b.v
           [] a.k = "wm" -> b.v < a.v
           [] OTHER -> FALSE
\* equality of scores: sentinels carry no payload
Eq(a, b) == a.k = b.k /\ (a.k \in {"min", "max"} \/ a.v = b.v)
Cmp(a, b) == IF Lt(a, b) THEN -1 ELSE IF Lt(b, a) THEN 1 ELSE 0
MaxOf(a, b) == IF Lt(a, b) THEN b ELSE a
MinOf(a, b) == IF Lt(b, a) THEN b ELSE a

\* colour mirror of a score (C13)
Neg(a) == CASE a.k = "min" -> Max [] a.k = "max" -> Min
            [] a.k = "bm" -> Sc("wm", a.v) [] a.k = "wm" -> Sc("bm", a.v)
            [] OTHER -> Sc("raw", -a.v)

IsMate(a) == a.k \in {"bm", "wm"}
Sentinel(a) == a.k \in {"min", "max"}
\* the worst score for a side: the starting value of its maximisation / minimisation
Worst(c) == IF c = "w" THEN Min ELSE Max
\* is `new` strictly better than `old` for the side c
Better(c, old, new) == IF c = "w" THEN Lt(old, new) ELSE Lt(new, old)
MateInOneFor(c) == IF c = "w" THEN Sc("wm", 1) ELSE Sc("bm", 1)
=============================================================================
