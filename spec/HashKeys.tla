------------------------------ MODULE HashKeys ------------------------------
(* C04, second sentence: the 794 keys exported from the implementation are pairwise distinct
   and non-zero.  Evaluated once by TLC; the result is printed for the evidence file. *)
EXTENDS Hash
VARIABLE done
Init == done = FALSE
Next == /\ ~done /\ done' = TRUE
        /\ PrintT(<<"KEYS", ToJson([nonzero |-> \A i \in 1..794 : AllKeys[i] # Zero4,
                                    distinct |-> Cardinality({ AllKeys[i] : i \in 1..794 }),
                                    total |-> 794])>>)
Spec == Init /\ [][Next]_done
=============================================================================
