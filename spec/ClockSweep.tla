----------------------------- MODULE ClockSweep -----------------------------
(* C05: every clock value 0..9999 in both clock fields of the canonical FEN of a fixed position
   (the text is produced by the specification; the harness parses it, compares the clocks and
   writes it back). *)
EXTENDS Fen, Json, IOUtils

Stride == atoi(IOEnv.VERIF_STRIDE)
Phase == atoi(IOEnv.VERIF_PHASE)
Base == [ b |-> [s \in Sq |-> CASE s = 4 -> "K" [] s = 60 -> "k" [] s = 0 -> "R" [] s = 63 -> "r" [] s = 12 -> "P" [] s = 52 -> "p" [] OTHER -> "."],
          turn |-> "w", cr |-> {"Q", "k"}, ep |-> -1, hm |-> 0, fm |-> 0 ]
VARIABLE x
Init == x \in { v \in 0..9999 : v % Stride = Phase }
Next == UNCHANGED x
Spec == Init /\ [][Next]_x
\* the second clock runs through the values in another order
Other(v) == (v * 7919 + 13) % 10000
P(v) == [Base EXCEPT !.hm = v, !.fm = Other(v), !.turn = IF v % 2 = 0 THEN "w" ELSE "b"]
EmitInv == PrintT(<<"CLK", ToJson([fen |-> ToFEN(P(x)), hm |-> x, fm |-> Other(x), t |-> P(x).turn])>>)
=============================================================================
