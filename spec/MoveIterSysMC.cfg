CONSTANTS
  Restrict = TRUE
  MaxOps = 5
SPECIFICATION Spec
INVARIANT AnswersAllowed
INVARIANT AbstractionAgrees
INVARIANT LenAgrees
CHECK_DEADLOCK FALSE
