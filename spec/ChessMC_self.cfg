SPECIFICATION Spec
VIEW View
INVARIANT ValidInductive
INVARIANT MirrorSymmetric
INVARIANT NoSelfCheck
INVARIANT CapacityOK
CHECK_DEADLOCK FALSE
