--------------------------- MODULE MoveIterTrace ---------------------------
(***************************************************************************)
(* Trace validation of the real move iterator against MoveIter (C10).      *)
(* One event per public call, logged at return, with the instance id.      *)
(* `clone` forks the specification state.  The result of next() binds the   *)
(* specification's nondeterministic choice.                                 *)
(***************************************************************************)
EXTENDS MoveIter, Sequences, Json, IOUtils, TLC, TLCExt

Rec == ndJsonDeserialize(IOEnv.VERIF_TRACE)

VARIABLES l, its, yielded, bad
vars == <<l, its, yielded, bad>>

SeqToSet(s) == { s[i] : i \in 1..Len(s) }
Fail(name, ok) == IF ok THEN {} ELSE {name}
Report(B) == \A c \in B : PrintT(<<"BAD", ToJson([line |-> l, prop |-> "C10", check |-> c])>>)

Ev(name) == l <= Len(Rec) /\ Rec[l].ev = name
Step(B, its2, y2) == /\ Report(B) /\ bad' = B /\ its' = its2 /\ yielded' = y2 /\ l' = l + 1

Upd(f, k, v) == [x \in DOMAIN f \cup {k} |-> IF x = k THEN v ELSE f[x]]

\* legals() / legals_masked(M): `all` is what a fresh unrestricted iteration of the same board yields
ItNew ==
    /\ Ev("it_new")
    /\ LET e == Rec[l]
           all == SeqToSet(e.all)
           it == IF e.masked THEN NewMasked(all, SeqToSet(e.mask)) ELSE New(all)
           B == Fail("fresh-iteration-repeats-a-move", Len(e.all) = Cardinality(all))
       IN Step(B, Upd(its, e.id, it), Upd(yielded, e.id, {}))

ItNext ==
    /\ Ev("it_next")
    /\ LET e == Rec[l]  it == its[e.id] IN
       IF e.res = -1
       THEN Step(Fail("ended-with-moves-remaining", Exhausted(it)), its, yielded)
       ELSE Step(Fail("yielded-unexpected-move", CanYield(it, e.res)),
                 Upd(its, e.id, AfterYield(it, e.res)), Upd(yielded, e.id, yielded[e.id] \cup {e.res}))

ItLen ==
    /\ Ev("it_len")
    /\ LET e == Rec[l]  it == its[e.id]  n == Length(it) IN
       Step(Fail("len", e.len = n) \cup Fail("is_empty", e.empty = IsEmpty(it))
            \cup Fail("size_hint", e.lo = n /\ e.hi = n), its, yielded)

ItSetMask ==
    /\ Ev("it_set_mask")
    /\ LET e == Rec[l] IN Step({}, Upd(its, e.id, SetMask(its[e.id], SeqToSet(e.mask))), yielded)

ItRemove ==
    /\ Ev("it_remove")
    /\ LET e == Rec[l] IN Step({}, Upd(its, e.id, Remove(its[e.id], SeqToSet(e.mask))), yielded)

\* the boolean returned by remove_move is not specified by the property and is not checked
ItRemoveMove ==
    /\ Ev("it_remove_move")
    /\ LET e == Rec[l] IN Step({}, Upd(its, e.id, RemoveMove(its[e.id], e.mv)), yielded)

ItClone ==
    /\ Ev("it_clone")
    /\ LET e == Rec[l] IN Step({}, Upd(its, e.new, its[e.id]), Upd(yielded, e.new, yielded[e.id]))

\* count(): consumes the iterator and must return the number of moves it would have yielded
ItCount ==
    /\ Ev("it_count")
    /\ LET e == Rec[l] IN Step(Fail("count", e.n = Length(its[e.id])), its, yielded)

Init == l = 1 /\ its = <<>> /\ yielded = <<>> /\ bad = {}
Next == ItNew \/ ItNext \/ ItLen \/ ItSetMask \/ ItRemove \/ ItRemoveMove \/ ItClone \/ ItCount
Spec == Init /\ [][Next]_vars

C10 == bad = {}

Accepted ==
    /\ PrintT(<<"DONE", ToJson([lines |-> Len(Rec), consumed |-> TLCGet("stats").diameter - 1])>>)
    /\ TLCGet("stats").diameter - 1 = Len(Rec)
=============================================================================
