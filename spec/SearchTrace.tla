---------------------------- MODULE SearchTrace ----------------------------
(***************************************************************************)
(* Trace validation of the real search (C11, C12, C13) against layer R.    *)
(*                                                                         *)
(* The harness runs Engine::search with its own counting time limit and    *)
(* records, in order: s_begin (position, side), then the engine's hook     *)
(* events pass / root / commit interleaved with the polls of the limit     *)
(* (every poll that follows a root evaluation or a pass end, and the first *)
(* poll that reports expiry; polls deep in the tree are only counted),     *)
(* then s_end with the returned move and score.                            *)
(*                                                                         *)
(* The properties are decided on what the search returns (s_end) and on    *)
(* the commits as the observation of "a deepening pass finished":          *)
(*   C11  result is none or a legal move; none if there is no legal move;  *)
(*        a move if the first pass was committed and legal moves exist;    *)
(*   C12  if mate in one exists and the first pass was committed, the      *)
(*        result is a mating move with the mover's mate-in-one score; a    *)
(*        mate-in-one score is only reported with a mating move;           *)
(*   C13  (event mirror_pair) per-depth committed scores of a position and *)
(*        its colour mirror are negations of each other.                    *)
(* The specification also folds the root evaluations itself (with the      *)
(* proved score order of Score.tla) and compares the engine's control flow *)
(* with the skeleton of Search.tla: every commit equals its own candidate, *)
(* no commit after expiry, the result is the last commit, each root move   *)
(* once per pass ...  These are statements about HOW the engine gets its   *)
(* answer (layer S); a search organised differently may break them and     *)
(* still satisfy the properties, so they are reported as DRIFT, never as   *)
(* violations.                                                             *)
(***************************************************************************)
EXTENDS Wire, Score, TLCExt

Rec == ndJsonDeserialize(IOEnv.VERIF_TRACE)

VARIABLES l, pos, legal, side, phase, expired, evaluated, pending, cur, curScore, best, bestScore, commits, bad
vars == <<l, pos, legal, side, phase, expired, evaluated, pending, cur, curScore, best, bestScore, commits, bad>>

NoMove == -1
NoPending == <<-1, Min>>
NoPos == [b |-> [s \in Sq |-> "."], turn |-> "w", cr |-> {}, ep |-> -1, hm |-> 0, fm |-> 0]
Fail(id, name, ok) == IF ok THEN {} ELSE {<<id, name>>}
Report(B) == \A c \in B : PrintT(<<"BAD", ToJson([line |-> l, prop |-> c[1], check |-> c[2]])>>)
Ev(name) == l <= Len(Rec) /\ Rec[l].ev = name
ScoreOf(j) == Sc(j.k, j.v)

\* a search starts: the position is given as a projection of the board that is searched
SBegin ==
    /\ Ev("s_begin")
    /\ LET e == Rec[l]
           p == IF e.same THEN pos ELSE PosOfJson(e.pos)
           L == IF e.same THEN legal ELSE Codes(Legal(p))
       IN /\ pos' = p /\ legal' = L /\ side' = p.turn
          /\ Report(Fail("FRAMEWORK", "search-on-unplayable-position", e.same \/ ValidPosition(p)))
          /\ bad' = {}
    /\ phase' = "idle" /\ expired' = FALSE /\ evaluated' = {} /\ pending' = NoPending
    /\ cur' = NoMove /\ curScore' = Worst(side') /\ best' = NoMove /\ bestScore' = Worst(side') /\ commits' = 0
    /\ l' = l + 1

\* a deepening pass starts
Pass ==
    /\ Ev("pass")
    /\ LET e == Rec[l]
           B == Fail("DRIFT", "pass-started-after-expiry", ~expired)
                \cup Fail("DRIFT", "pass-depth-is-not-number-of-commits", e.depth = commits)
                \cup Fail("DRIFT", "pass-started-with-evaluation-pending", pending = NoPending)
       IN Report(B) /\ bad' = B
    /\ phase' = "pass" /\ evaluated' = {} /\ pending' = NoPending /\ cur' = NoMove /\ curScore' = Worst(side)
    /\ UNCHANGED <<pos, legal, side, expired, best, bestScore, commits>>
    /\ l' = l + 1

\* a root move was searched; its score is folded in by the poll that follows
Root ==
    /\ Ev("root")
    /\ LET e == Rec[l]
           B == Fail("DRIFT", "root-move-not-legal", e.mv \in legal)
                \cup Fail("DRIFT", "root-move-searched-twice-in-a-pass", e.mv \notin evaluated)
                \cup Fail("DRIFT", "root-outside-a-pass", phase = "pass")
       IN Report(B) /\ bad' = B
    /\ evaluated' = evaluated \cup {Rec[l].mv} /\ pending' = <<Rec[l].mv, ScoreOf(Rec[l].score)>>
    /\ UNCHANGED <<pos, legal, side, phase, expired, cur, curScore, best, bestScore, commits>>
    /\ l' = l + 1

\* a poll of the limit (the limit is the harness's own object: once expired it stays expired)
Poll ==
    /\ Ev("poll")
    /\ LET e == Rec[l]
           fold == pending # NoPending /\ ~e.expired
           better == fold /\ Better(side, curScore, pending[2])
           B == Fail("FRAMEWORK", "limit-not-monotone", expired => e.expired)
                \cup Fail("DRIFT", "sentinel-score-from-a-completed-root-search", fold => ~Sentinel(pending[2]))
       IN /\ Report(B) /\ bad' = B
          /\ expired' = e.expired
          /\ cur' = IF better THEN pending[1] ELSE cur
          /\ curScore' = IF better THEN pending[2] ELSE curScore
    /\ pending' = NoPending
    /\ UNCHANGED <<pos, legal, side, phase, evaluated, best, bestScore, commits>>
    /\ l' = l + 1

\* the engine adopts the pass
Commit ==
    /\ Ev("commit")
    /\ LET e == Rec[l]
           B == Fail("DRIFT", "commit-after-expiry", ~expired)
                \cup Fail("DRIFT", "commit-with-evaluation-pending", pending = NoPending)
                \cup Fail("DRIFT", "committed-move-is-not-the-best-root-move", e.mv = cur)
                \cup Fail("DRIFT", "committed-score-is-not-the-best-root-score", Eq(ScoreOf(e.score), curScore))
                \cup Fail("DRIFT", "commit-depth", e.depth = commits)
                \* the limit may expire right after any commit, and then this commit is the answer
                \cup Fail("C11", "pass-committed-without-a-move-although-one-is-legal", legal # {} => e.mv # NoMove)
                \cup Fail("DRIFT", "first-pass-skipped-a-legal-move", commits = 0 => evaluated = legal)
       IN Report(B) /\ bad' = B
    /\ best' = Rec[l].mv /\ bestScore' = ScoreOf(Rec[l].score) /\ commits' = commits + 1 /\ phase' = "idle"
    /\ UNCHANGED <<pos, legal, side, expired, evaluated, pending, cur, curScore>>
    /\ l' = l + 1

MateCodes == Codes(MateMoves(pos))
\* the premise "the time limit lets the first deepening pass finish": a pass was committed before the
\* limit expired - or the limit never expired at all while the search ran (a search that returns on
\* its own, e.g. by a shortcut that bypasses the deepening loop, was not stopped by the limit)
FirstPassDone == commits >= 1 \/ ~expired
\* the search returns
SEnd ==
    /\ Ev("s_end")
    /\ LET e == Rec[l]
           sc == ScoreOf(e.score)
           mates == IF FirstPassDone \/ Eq(sc, MateInOneFor(side)) THEN MateCodes ELSE {}
           B == Fail("C11", "search-did-not-terminate", e.terminated)
                \cup Fail("C11", "search-panicked", ~e.panicked)
                \cup Fail("C11", "returned-move-not-legal", e.mv = NoMove \/ e.mv \in legal)
                \cup Fail("C11", "move-returned-although-none-is-legal", legal = {} => e.mv = NoMove)
                \cup Fail("C11", "no-move-although-first-pass-completed", (FirstPassDone /\ legal # {}) => e.mv # NoMove)
                \cup Fail("DRIFT", "result-is-not-the-last-commit", e.mv = best /\ Eq(sc, bestScore))
                \cup Fail("C12", "mate-in-one-not-played", (FirstPassDone /\ mates # {}) => e.mv \in mates)
                \cup Fail("C12", "mate-in-one-not-reported", (FirstPassDone /\ mates # {}) => Eq(sc, MateInOneFor(side)))
                \cup Fail("C12", "mate-in-one-reported-untruthfully", Eq(sc, MateInOneFor(side)) => e.mv \in mates)
       IN Report({ c \in B : e.terminated \/ c[2] = "search-did-not-terminate" })
          /\ bad' = B
    /\ phase' = "done"
    /\ UNCHANGED <<pos, legal, side, expired, evaluated, pending, cur, curScore, best, bestScore, commits>>
    /\ l' = l + 1

\* C13: committed scores per depth of a position (a) and of its colour mirror (b)
MirrorPair ==
    /\ Ev("mirror_pair")
    /\ LET e == Rec[l]
           n == IF Len(e.a) < Len(e.b) THEN Len(e.a) ELSE Len(e.b)
           B == Fail("C13", "mirrored-score-differs", \A d \in 1..n : Eq(ScoreOf(e.a[d]), Neg(ScoreOf(e.b[d]))))
       IN Report(B) /\ bad' = B
    /\ UNCHANGED <<pos, legal, side, phase, expired, evaluated, pending, cur, curScore, best, bestScore, commits>>
    /\ l' = l + 1

Init == /\ l = 1 /\ pos = NoPos /\ legal = {} /\ side = "w" /\ phase = "idle" /\ expired = FALSE /\ evaluated = {}
        /\ pending = NoPending /\ cur = NoMove /\ curScore = Min /\ best = NoMove /\ bestScore = Min /\ commits = 0 /\ bad = {}
Next == SBegin \/ Pass \/ Root \/ Poll \/ Commit \/ SEnd \/ MirrorPair
Spec == Init /\ [][Next]_vars

Holds(id) == \A c \in bad : c[1] # id
C11 == Holds("C11")
C12 == Holds("C12")
C13 == Holds("C13")
Accepted ==
    /\ PrintT(<<"DONE", ToJson([lines |-> Len(Rec), consumed |-> TLCGet("stats").diameter - 1])>>)
    /\ TLCGet("stats").diameter - 1 = Len(Rec)
=============================================================================
