----------------------------- MODULE BoardSysMC -----------------------------
(* the implemented validation (BoardSys!SysValidate) against the contract (Chess!ValidPosition)
   over small arbitrary assemblies: kings on chosen squares, up to two further pieces of eight
   kinds on squares around the home squares and the en-passant ranks, chosen sets of castling
   rights, chosen en-passant files, either side to move. *)
EXTENDS BoardSys, TLC, IOUtils

Slice == atoi(IOEnv.VERIF_SLICE)
Slices == atoi(IOEnv.VERIF_SLICES)
WK == {4, 27, 12}                 \* e1, d4, e2
BK == {60, 36, 21, 52}            \* e8, e5, f3, e7
Spots == {0, 7, 56, 63, 3, 5, 59, 61, 35, 28, 43, 20, 34, 29, 44, 19}  \* a1 h1 a8 h8 d1 f1 d8 f8 d5 e4 d6 e3 c5 f4 e6 d3
Small == IOEnv.VERIF_SMALL = "1"
Kinds == {"R", "r", "P", "p", "Q", "q", "N", "b"}
Kinds2 == IF Small THEN {"R", "p", "q", "N"} ELSE Kinds
Rights == {{}, {"K"}, {"Q"}, {"k"}, {"q"}, {"K", "Q", "k", "q"}, {"K", "q"}}
Eps == IF Small THEN {-1, 3} ELSE {-1, 3, 4, 0}
EmptyBoard == [s \in Sq |-> "."]

VARIABLE pos
Init == \E wk \in WK, bk \in BK, s1 \in { s \in Spots : s % Slices = Slice } \cup {-1}, s2 \in Spots \cup {-1},
           k1 \in Kinds, k2 \in Kinds2, cr \in Rights, ep \in Eps, t \in {"w", "b"} :
          /\ wk # bk /\ (s1 = -1 => s2 = -1) /\ (s2 # -1 => s1 < s2) /\ {s1, s2} \cap {wk, bk} = {}
          /\ (s1 = -1 => k1 = "R") /\ (s2 = -1 => k2 = "R")
          /\ pos = [ b |-> [s \in Sq |-> IF s = wk THEN "K" ELSE IF s = bk THEN "k" ELSE IF s = s1 THEN k1 ELSE IF s = s2 THEN k2 ELSE "."],
                     turn |-> t, cr |-> cr, ep |-> ep, hm |-> 0, fm |-> 1 ]
Next == UNCHANGED pos
Spec == Init /\ [][Next]_pos

AcceptsOnlyPlayable == SysValidate(pos) => ValidPosition(pos)
AcceptsEveryPlayable == ValidPosition(pos) => SysValidate(pos)
=============================================================================
