SPECIFICATION Spec
VIEW View
INVARIANT RangeOK
ACTION_CONSTRAINT EmitTransition
CHECK_DEADLOCK FALSE
