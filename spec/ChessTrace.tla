----------------------------- MODULE ChessTrace -----------------------------
(***************************************************************************)
(* Trace validation for the board API (C01-C06): every recorded public     *)
(* call of the implementation is one step of the game state machine of     *)
(* layer R.  The harness logs, at the return of each call, the operation,  *)
(* its argument and result, and the full projected state.                  *)
(*                                                                         *)
(* A property failure never disables an action: the step consumes the      *)
(* line, advances the specification state with the SPECIFICATION's Apply   *)
(* and records which named checks failed in `bad`; so the rest of the      *)
(* trace is still validated.  Each failed check is also printed as one     *)
(* BAD line (the replay points at the trace line).  Acceptance requires    *)
(* that every line was consumed (POSTCONDITION).                           *)
(***************************************************************************)
EXTENDS Wire, TLCExt

Rec == ndJsonDeserialize(IOEnv.VERIF_TRACE)
ROOTS == JsonDeserialize(IOEnv.VERIF_ROOTS)

VARIABLES l,        \* next line of the trace
          pos,      \* specification position
          legal,    \* Legal(pos), cached
          bad,      \* names of the checks that failed at the last step
          seen      \* hash observed for each position identity met so far in this trace
vars == <<l, pos, legal, bad, seen>>

\* identity of a position for the hash and for repetition: placement, side, rights, en-passant file
IdentKey(p) == Placement(p.b) \o " " \o p.turn \o " " \o RightsStr(p.cr) \o " " \o ToString(p.ep)
\* C04, first sentence, independent of the key formula: whatever path led to a position, equal
\* positions were given equal hashes
SameHashAsBefore(p, o) == LET k == IdentKey(p) IN k \in DOMAIN seen => seen[k] = o.zob
Remember(p, o) == LET k == IdentKey(p) IN [x \in DOMAIN seen \cup {k} |-> IF x = k THEN o.zob ELSE seen[x]]

NoPos == [b |-> [s \in Sq |-> "."], turn |-> "w", cr |-> {}, ep |-> -1, hm |-> 0, fm |-> 0]

SeqBag(s) == [ x \in SeqToSet(s) |-> Cardinality({ i \in 1..Len(s) : s[i] = x }) ]

(***************************************************************************)
(* The named checks.  Each is a predicate over (specification position p,  *)
(* its legal set L, the logged observation o).                             *)
(***************************************************************************)
\* C01: the generator yields exactly the legal moves, each exactly once
OkLegals(L, o)   == ExactlyOnce(o.legals, Codes(L))
\* C10 (fresh iterator): reported length and emptiness
OkFreshLen(L, o) == o.len = Cardinality(L) /\ o.empty = (L = {})
\* C02: the projected successor is the one the rules prescribe
OkPos(p, o)      == PosOfJson(o.pos) = p /\ o.raw_ok
\* C03: check flag, status
OkCheck(p, L, o) == o.chk = InCheck(p)
\* the set of checking pieces is internal state (read through a hook): a disagreement with the model is drift
OkCheckers(p, o) == SeqToSet(o.cks) = Checkers(p)
OkStatus(p, L, o) == o.st = ClassifyWith(L, InCheck(p), p.hm)
\* C04: the hash is the function of the position that Hash.tla defines
OkHash(p, o)     == o.zob = Zobrist(p)
\* the piece-only part of the hash is internal state (hook): drift
OkPieceHash(p, o) == o.phash = PieceHash(p.b)
\* C05: the text is the canonical FEN
OkFen(p, o)      == o.fen = ToFEN(p)
\* C03/C05: the position rebuilt from its own text is indistinguishable
OkTwinParse(o)   == o.twin.ok
OkTwinEqual(o)   == o.twin.ok => o.twin.eq /\ o.twin.pos_eq /\ o.twin.probe
OkTwinHash(o)    == o.twin.ok => o.twin.zob = o.zob /\ o.twin.phash = o.phash
OkTwinDerived(o) == o.twin.ok => /\ SeqBag(o.twin.legals) = SeqBag(o.legals)
                                 /\ o.twin.chk = o.chk /\ o.twin.st = o.st
                                 /\ o.twin.cks = o.cks /\ o.twin.pins = o.pins
                                 /\ o.twin.fen = o.fen /\ o.twin.dbg_eq /\ o.twin.dbga_eq
\* model of the pin/shield cache (layer S flavour: disagreement is drift, not a violation)
OkPins(p, o)     == SeqToSet(o.pins) = Blockers(p)

Fail(id, name, ok) == IF ok THEN {} ELSE {<<id, name>>}
\* C05 quantifies over clock values 0..9999 (the text form has four digits); beyond that the
\* text-based comparisons say nothing
InTextRange(p) == p.hm <= 9999 /\ p.fm <= 9999

Checks(p, L, o) ==
    LET k == o.kings IN
    Fail("C01", "legals", k /\ OkLegals(L, o)) \cup
    Fail("C10", "fresh-len", k /\ OkFreshLen(L, o)) \cup
    Fail("C02", "successor", OkPos(p, o)) \cup
    Fail("C03", "check", k /\ OkCheck(p, L, o)) \cup
    Fail("C03", "status", k /\ OkStatus(p, L, o)) \cup
    Fail("C04", "hash", OkHash(p, o)) \cup
    Fail("C05", "fen", OkFen(p, o)) \cup
    Fail("C05", "twin-parse", InTextRange(p) => OkTwinParse(o)) \cup
    Fail("C05", "twin-equal", InTextRange(p) => OkTwinEqual(o)) \cup
    Fail("C04", "twin-hash", InTextRange(p) => OkTwinHash(o)) \cup
    Fail("C03", "twin-derived", InTextRange(p) => OkTwinDerived(o)) \cup
    Fail("DRIFT", "pins", k => OkPins(p, o)) \cup
    Fail("DRIFT", "checkers", k => OkCheckers(p, o)) \cup
    Fail("DRIFT", "piece-hash", OkPieceHash(p, o))

\* the legality probe over all 20480 triples, when the event carries one
ProbeChecks(L, e) ==
    IF "probe" \notin DOMAIN e THEN {} ELSE
    LET C == Codes(L) IN
    Fail("C01", "is_legal", ExactlyOnce(e.probe.isl, C)) \cup
    Fail("C02", "accept-new", ExactlyOnce(e.probe.acc_new, C)) \cup
    Fail("C02", "accept-mut", ExactlyOnce(e.probe.acc_mut, C)) \cup
    Fail("C02", "accept-into", ExactlyOnce(e.probe.acc_into, C)) \cup
    Fail("C02", "refusal-touched", e.probe.touched = 0)

Report(B) == \A c \in B : PrintT(<<"BAD", ToJson([line |-> l, prop |-> c[1], check |-> c[2]])>>)

SafeLegal(p) == IF OneKingEach(p.b) THEN Legal(p) ELSE {}

(***************************************************************************)
(* Actions                                                                  *)
(***************************************************************************)
\* a board obtained from the parser (a root of roots.json): the projection must be the record
\* the independent translator produced for that FEN, and it must be a playable position (C06)
Reset ==
    /\ l <= Len(Rec) /\ Rec[l].ev = "reset"
    /\ LET e == Rec[l]
           p == PosOfJson(ROOTS[e.root].pos)
           L == SafeLegal(p)
           B == Checks(p, L, e.obs)
                \cup Fail("C06", "accepted-unplayable", ValidPosition(PosOfJson(e.obs.pos)))
                \cup Fail("C05", "parse", PosOfJson(e.obs.pos) = p)
                \cup Fail("C04", "equal-positions-hashed-differently", SameHashAsBefore(p, e.obs))
       IN /\ Report(B) /\ bad' = B /\ pos' = p /\ legal' = L /\ seen' = Remember(p, e.obs)
    /\ l' = l + 1

\* one call of move_new / move_mut / move_into
Move ==
    /\ l <= Len(Rec) /\ Rec[l].ev = "move"
    /\ LET e == Rec[l]
           m == Decode(e.mv)
           isLegal == m \in legal
           ps == IF isLegal THEN Apply(pos, m) ELSE pos      \* the prescribed successor
           Ls == IF isLegal THEN SafeLegal(ps) ELSE legal
           B == Checks(ps, Ls, e.obs) \cup ProbeChecks(Ls, e)
                \cup Fail("C02", "accept", e.accepted = isLegal)
                \cup Fail("C01", "is_legal-refuses-generated-move", e.refused_generated = <<>>)
                \cup Fail("C04", "equal-positions-hashed-differently", PosOfJson(e.obs.pos) = ps => SameHashAsBefore(ps, e.obs))
                \cup Fail("C02", "refusal-touched", e.accepted \/ e.untouched)
           \* after a (reported) divergence continue from the implementation's position, so that
           \* the rest of the walk is checked on its own merits instead of repeating the report
           po == PosOfJson(e.obs.pos)
           resync == po # ps /\ OneKingEach(po.b)
       IN /\ Report(B) /\ bad' = B
          /\ pos' = IF resync THEN po ELSE ps
          /\ legal' = IF resync THEN SafeLegal(po) ELSE Ls
          /\ seen' = IF PosOfJson(e.obs.pos) = ps THEN Remember(ps, e.obs) ELSE seen
    /\ l' = l + 1

\* a board the parser or the builder returned for an arbitrary input (C06): it must be playable;
\* a sample of them carries the full observation and is checked like any other position
Parsed ==
    /\ l <= Len(Rec) /\ Rec[l].ev = "parsed"
    /\ LET e == Rec[l]
           p == PosOfJson(e.obs.pos)
           valid == ValidPosition(p)
           L == IF valid /\ e.full THEN Legal(p) ELSE {}
           B == Fail("C06", "accepted-unplayable:" \o InvalidReason(p), valid)
                \cup (IF valid /\ e.full THEN Checks(p, L, e.obs) ELSE {})
       IN /\ Report(B) /\ bad' = B /\ pos' = p /\ legal' = L /\ UNCHANGED seen
    /\ l' = l + 1

\* two boards compared with `==`: boards that compare equal must hash equal (C04, first sentence, as
\* stated); and the hash being a function of the position's identity only, two boards of equal identity
\* (they may differ in the clocks) must hash equal whatever `==` says.  What `==` itself distinguishes is
\* the implementation's choice as far as C04 goes: a difference from the identity is drift.
Cmp ==
    /\ l <= Len(Rec) /\ Rec[l].ev = "cmp"
    /\ LET e == Rec[l]
           a == PosOfJson(e.a)  b == PosOfJson(e.b)
           same == IdentKey(a) = IdentKey(b)
           B == Fail("C04", "boards-that-compare-equal-hash-differently", e.eq => e.za = e.zb)
                \cup Fail("C04", "equal-positions-hashed-differently", same => e.za = e.zb)
                \cup Fail("C04", "a-component-does-not-influence-the-hash", ~same => e.za # e.zb)
                \cup Fail("DRIFT", "equality-differs-from-position-identity", e.eq = same)
       IN Report(B) /\ bad' = B
    /\ UNCHANGED <<pos, legal, seen>>
    /\ l' = l + 1

Init == l = 1 /\ pos = NoPos /\ legal = {} /\ bad = {} /\ seen = <<>>
Next == Reset \/ Move \/ Parsed \/ Cmp
Spec == Init /\ [][Next]_vars

(***************************************************************************)
(* The properties as named invariants over the validated trace.  On long   *)
(* traces the configuration does not stop at the first failure (BAD lines  *)
(* carry the same information); small configurations check them directly.  *)
(***************************************************************************)
Holds(id) == \A c \in bad : c[1] # id
C01 == Holds("C01")
C02 == Holds("C02")
C03 == Holds("C03")
C04 == Holds("C04")
C05 == Holds("C05")
C06 == Holds("C06")

Accepted ==
    /\ PrintT(<<"DONE", ToJson([lines |-> Len(Rec), consumed |-> TLCGet("stats").diameter - 1])>>)
    /\ TLCGet("stats").diameter - 1 = Len(Rec)
=============================================================================
