----------------------------- MODULE HashSysMC -----------------------------
(* The incremental hash of HashSys carried along the game state machine (roots and depth as in ChessMC). *)
EXTENDS HashSys, Wire

ROOTS == JsonDeserialize(IOEnv.VERIF_ROOTS)
Depth == atoi(IOEnv.VERIF_DEPTH)
RootIdx == JsonDeserialize(IOEnv.VERIF_ROOTSEL)

VARIABLES pos, root, depth, ph
vars == <<pos, root, depth, ph>>

Init == \E i \in SeqToSet(RootIdx) : /\ root = i /\ pos = PosOfJson(ROOTS[i].pos) /\ depth = 0 /\ ph = PieceHash(pos.b)
Next == /\ depth < Depth
        /\ \E m \in Legal(pos) : /\ pos' = Apply(pos, m) /\ ph' = IncPieceHash(pos, m, ph)
        /\ depth' = depth + 1 /\ UNCHANGED root
Spec == Init /\ [][Next]_vars

IncrementalPieceHashExact == ph = PieceHash(pos.b)
ReadHashExact == ReadHash(pos, ph) = Zobrist(pos)
=============================================================================
