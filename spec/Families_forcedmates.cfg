SPECIFICATION Spec
VIEW View
INVARIANT EmitForcedMates
CHECK_DEADLOCK FALSE
