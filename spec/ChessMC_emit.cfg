SPECIFICATION Spec
VIEW View
INVARIANT EmitInv
CHECK_DEADLOCK FALSE
