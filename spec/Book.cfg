SPECIFICATION Spec
INVARIANT EdgesLegal
INVARIANT LeafDepth
INVARIANT ChildrenInside
INVARIANT EmitInv
CHECK_DEADLOCK FALSE
