------------------------------ MODULE Families ------------------------------
(***************************************************************************)
(* Complete bounded families of positions placed next to the rare          *)
(* interactions (DESIGN.md section 5).  Each family is a set of root        *)
(* positions enumerated by placement; a slice (index % Slices = Slice)      *)
(* selects a part for the quick tier, Slices = 1 enumerates everything.     *)
(*   ep      mover king, mover pawn on its fifth rank, victim pawn on its   *)
(*           start square on an adjacent file, one enemy slider, enemy      *)
(*           king; the victim's double step is PLAYED (so the marker is a   *)
(*           history, not a hand-set field), then every en-passant capture  *)
(*   castle  king and rooks at home with full rights, one enemy piece of    *)
(*           each kind on each square, optional blocker; then every move    *)
(*           of the king and the rooks (castling included)                   *)
(*   promo   a pawn on the seventh rank with every combination of pieces    *)
(*           on the three squares in front, own king on squares that pin    *)
(*           it in every direction, one enemy slider; then its moves         *)
(*   mate    K+Q, K+R, K+R+R, K+B+N, K+Q+pawn-shield against a bare (or     *)
(*           shielded) king: all placements (for the search properties)     *)
(* Both colours are covered through Mirror.                                 *)
(***************************************************************************)
EXTENDS Wire

Family == IOEnv.VERIF_FAMILY
Slice == atoi(IOEnv.VERIF_SLICE)
Slices == atoi(IOEnv.VERIF_SLICES)
Variant == IOEnv.VERIF_VARIANT          \* family-specific selector (slider kind, piece set ...)

EmptyBoard == [s \in Sq |-> "."]
RECURSIVE PlaceAll(_,_)
PlaceAll(b, ps) == IF ps = <<>> THEN b ELSE PlaceAll([b EXCEPT ![ps[1][2]] = ps[1][1]], Tail(ps))
Distinct(sqs) == Cardinality({ sqs[i] : i \in 1..Len(sqs) }) = Len(sqs)
Mk0(b, t, cr) == [b |-> b, turn |-> t, cr |-> cr, ep |-> -1, hm |-> 0, fm |-> 1]
InSlice(n) == n % Slices = Slice

(* ---- ep: White is the mover (pawn on rank 5 = index 4), Black the victim (pawn on rank 7 = index 6), Black to move *)
EpVictimFile == atoi(IOEnv.VERIF_FILE)
\* each family is a predicate Gen(p) that is true of exactly its root positions, written as nested
\* existential choices so that TLC enumerates the roots without building (and normalising) a set
EpGen(p) ==
    LET vf == EpVictimFile
        sl == Variant                                         \* "r", "b" or "q"
    IN \E k \in { k \in Sq : InSlice(k) }, pf \in { pf \in {vf - 1, vf + 1} : pf \in 0..7 }, s \in Sq,
          \* the victim's king far away, or next to the victim's start square (so that the capturing pawn,
          \* landing behind the victim, gives a direct check)
          bk \in {63, 56, 32} \cup { At(g, 6) : g \in { g \in {vf - 1, vf + 1} : g \in 0..7 } } :
          p = Mk0(PlaceAll(EmptyBoard, << <<"K", k>>, <<"P", At(pf, 4)>>, <<"p", At(vf, 6)>>, <<sl, s>>, <<"k", bk>> >>), "b", {})
EpRootOK(p) == /\ Cardinality({ s \in Sq : p.b[s] # "." }) = 5 /\ ValidPosition(p)
           /\ p.b[At(EpVictimFile, 5)] = "." /\ p.b[At(EpVictimFile, 4)] = "."

(* ---- castle: White to move, rights KQ; one black piece anywhere, optional blocker *)
CastleGen(p) ==
    LET kind == Variant                                       \* "n","b","r","q","p","k"
        \* with Variant = "k" the roaming enemy piece is the enemy king itself (squares attacked by a king next to
        \* the castling path), otherwise that king stays on e8
        base == IF kind = "k" THEN << <<"K", 4>>, <<"R", 0>>, <<"R", 7>> >> ELSE << <<"K", 4>>, <<"R", 0>>, <<"R", 7>>, <<"k", 60>> >>
    IN \E a \in { a \in Sq : InSlice(a) },
          bl \in ({<<".", 0>>} \cup (IF kind = "k" THEN { <<"N", s>> : s \in {1, 2, 3, 5, 6} } ELSE { <<x, s>> : x \in {"P", "p", "N"}, s \in 1..23 })) :
          p = Mk0(PlaceAll(EmptyBoard, base \o << <<kind, a>> >> \o (IF bl[1] = "." THEN <<>> ELSE << bl >>)), "w", {"K", "Q"})
CastleOK(p) == ValidPosition(p) /\ p.b[4] = "K" /\ p.b[0] = "R" /\ p.b[7] = "R" /\ Cardinality({ s \in Sq : p.b[s] = "k" }) = 1
               /\ Cardinality({ s \in Sq : p.b[s] # "." }) \in {4, 5, 6}
               /\ \A s \in Sq : (p.b[s] \in {"P", "p"}) => RankOf(s) \in 1..6

(* ---- promo: white pawn on rank 7 (index 6) of file f *)
PromoFile == atoi(IOEnv.VERIF_FILE)
PromoGen(p) ==
    LET f == PromoFile
        fronts == { g \in {f - 1, f, f + 1} : g \in 0..7 }
        sl == Variant
        ksq == { At(f, 5), At(f, 0) } \cup { s \in Sq : RankOf(s) = 6 /\ s # At(f, 6) }
               \cup { s \in Sq : FileOf(s) - f = RankOf(s) - 6 \/ FileOf(s) - f = 6 - RankOf(s) }
        base(fill) == [x \in Sq |-> IF RankOf(x) = 7 /\ FileOf(x) \in fronts THEN fill[FileOf(x)] ELSE "."]
    \* 64 slices: the king by its index in ksq (mod 8), the slider by its square (mod 8)
    IN \E k \in { k \in ksq : Slices = 1 \/ Cardinality({ y \in ksq : y < k }) % 8 = Slice % 8 },
          s \in { s \in Sq : Slices = 1 \/ s % 8 = (Slice \div 8) % 8 }, bk \in {At((f + 4) % 8, 3), At((f + 3) % 8, 6)},
          fill \in [fronts -> {".", "n", "r"}] :
          p = Mk0(PlaceAll(base(fill), << <<"P", At(f, 6)>>, <<"K", k>>, <<sl, s>>, <<"k", bk>> >>), "w", {})
PromoOK(p) == ValidPosition(p) /\ p.b[At(PromoFile, 6)] = "P"
              /\ Cardinality({ s \in Sq : p.b[s] \in {"K", "k"} }) = 2
              /\ Cardinality({ s \in Sq : p.b[s] = "P" }) = 1

(* ---- mate: white pieces against the black king; White to move *)
MatePieces == CASE Variant = "KQ" -> <<"Q">> [] Variant = "KR" -> <<"R">> [] Variant = "KRR" -> <<"R", "R">>
                [] Variant = "KBN" -> <<"B", "N">> [] Variant = "KQP" -> <<"Q">> [] Variant = "KBB" -> <<"B", "B">>
                [] Variant = "KB" -> <<"B">> [] Variant = "KN" -> <<"N">> [] Variant = "KQQ" -> <<"Q", "Q">> [] Variant = "KQR" -> <<"Q", "R">> [] Variant = "KNN" -> <<"N", "N">>
                [] Variant = "KQRR" -> <<"Q", "R", "R">> [] Variant = "KQRB" -> <<"Q", "R", "B">> [] Variant = "KRRR" -> <<"R", "R", "R">>
                [] OTHER -> <<"Q">>
MateGen(p) ==
    LET n == Len(MatePieces)
        shield == IF Variant = "KQP" THEN {<<>>, << <<"p", 53>>, <<"p", 54>>, <<"p", 55>> >>, << <<"p", 54>>, <<"p", 55>> >>} ELSE {<<>>}
        \* the defending king on the edge only (where K+Q / K+R mates happen) when VERIF_EDGE = 1
        bks == IF IOEnv.VERIF_EDGE = "1" THEN { x \in Sq : FileOf(x) \in {0, 7} \/ RankOf(x) \in {0, 7} } ELSE Sq
        \* the attacking king close by (distance 2: the supporting distance) when VERIF_NEAR = 1
        KDist(a, c) == LET df == FileOf(a) - FileOf(c)  dr == RankOf(a) - RankOf(c)
                           ab(x) == IF x < 0 THEN -x ELSE x IN
                       IF ab(df) > ab(dr) THEN ab(df) ELSE ab(dr)
        near(bk) == IF IOEnv.VERIF_NEAR = "1" THEN { k \in Sq : KDist(k, bk) = 2 } ELSE Sq
        \* half-move clock of the root (99: the mating move is played on the brink of the clock draw)
        hm0 == atoi(IOEnv.VERIF_HM)
        \* optionally one extra defending piece next to its king (mates by capture) and the
        \* attacking pieces within distance 3 of the defending king (VERIF_EXTRA = piece letter)
        extra == IOEnv.VERIF_EXTRA
        \* an optional second extra defending piece (VERIF_EXTRA2), also next to its king
        extra2 == IOEnv.VERIF_EXTRA2
        ys(bk) == IF extra2 = "" THEN {-1} ELSE { y \in Sq : KDist(y, bk) \in {1, 2} }
        xs(bk) == IF extra = "" THEN {-1} ELSE { x \in Sq : KDist(x, bk) \in {1, 2} /\ (Slices = 1 \/ n = 1 \/ x % 4 = Slice % 4) }
        psq(bk) == IF extra = "" THEN Sq ELSE { x \in Sq : KDist(x, bk) <= 3 }
        withx(seq, x) == IF x = -1 THEN seq ELSE seq \o << <<extra, x>> >>
        withy(seq, y) == IF y = -1 THEN seq ELSE seq \o << <<extra2, y>> >>
    IN \E bk \in bks : \E k \in { k \in near(bk) : InSlice(bk * 64 + k) }, x \in xs(bk), y \in ys(bk),
          ps \in { q \in [1..n -> psq(bk)] : \/ n = 1 \/ Slices = 1 \/ extra # ""
                                            \/ (n = 2 /\ q[1] % 4 = Slice % 4)
                                            \/ (n >= 3 /\ q[1] % 8 = Slice % 8 /\ q[2] % 8 = (Slice \div 8) % 8) }, sh \in shield :
          p = [ Mk0(PlaceAll(PlaceAll(EmptyBoard, sh), withy(withx(<< <<"K", k>>, <<"k", bk>> >> \o [i \in 1..n |-> <<MatePieces[i], ps[i]>>], x), y)), "w", {})
                EXCEPT !.hm = hm0 ]
MateOK(p) == ValidPosition(p)
             /\ Cardinality({ s \in Sq : p.b[s] \in WhiteP }) = 1 + Len(MatePieces)
             /\ Cardinality({ s \in Sq : p.b[s] # "." }) >= 2 + Len(MatePieces) + (IF IOEnv.VERIF_EXTRA = "" THEN 0 ELSE 1)
                                                             + (IF IOEnv.VERIF_EXTRA2 = "" THEN 0 ELSE 1)
             /\ \A z \in Sq : p.b[z] = "p" => RankOf(z) \in 1..6
             /\ Cardinality({ s \in Sq : p.b[s] = "k" }) = 1 /\ Cardinality({ s \in Sq : p.b[s] = "K" }) = 1

(* ---- evade: the mover's king with enemy pieces and own defenders in its neighbourhood: checks of every kind
   (single, double, by each piece kind), interpositions, captures of the checker, pinned defenders.
   White to move; 1152 slices (Slice in 0..1151), each about ten thousand placements. *)
Near2(k) == { x \in Sq : x # k /\ (LET df == FileOf(x) - FileOf(k)  dr == RankOf(x) - RankOf(k) IN df \in -2..2 /\ dr \in -2..2) }
Idx(S, x) == Cardinality({ y \in S : y < x })
EvadeGen(p) ==
    LET kings == <<4, 27, 7>>
        k == kings[(Slice % 3) + 1]
        s1 == Slice \div 3
        N == Near2(k)
        akinds == <<"q", "r", "b", "n", "p">>
        dkinds == <<"Q", "R", "B", "N", "P">>
        bkind == <<"q", "r", "b", "n", "p", ".">>[((s1 \div 16) % 6) + 1]
        asq == { x \in N : Idx(N, x) % 4 = s1 % 4 }
        dsq == { x \in N : Idx(N, x) % 4 = (s1 \div 4) % 4 }
        bsq == IF bkind = "." THEN {-1} ELSE { x \in N : Idx(N, x) % 2 = (s1 \div 96) % 2 }
        far == IF k = 7 THEN 56 ELSE 63
    IN \E ak \in { x \in 1..5 : Slices = 1 \/ x % 2 = (s1 \div 192) % 2 }, a \in asq, dk \in 1..5, d \in dsq, b \in bsq :
          /\ a # d /\ b # a /\ b # d
          /\ p = Mk0(PlaceAll(EmptyBoard, << <<"K", k>>, <<"k", far>>, <<akinds[ak], a>>, <<dkinds[dk], d>> >>
                                          \o (IF b = -1 THEN <<>> ELSE << <<bkind, b>> >>)), "w", {})
EvadeOK(p) == ValidPosition(p) /\ \A z \in Sq : p.b[z] \in {"P", "p"} => RankOf(z) \in 1..6

(* ---- promomate: a white pawn on the seventh rank that can capture a black piece on the eighth, the black king a
   knight's move from the capture square or within two squares of the promotion square, with (nearly) all its
   neighbours blocked by its own men, an optional white helper piece: the positions in which a promotion - an
   under-promotion by capture, or a push while a capture is also possible - mates. *)
PromoMateGen(p) ==
    LET f == PromoFile
        helper == Variant                                     \* "Q", "R", "B", "N" or "." (none)
    IN \E t \in { At(g, 7) : g \in { g \in {f - 1, f + 1} : g \in 0..7 } }, x \in {"r", "b", "n", "q"} :
       \E bk \in { z \in Sq : RankOf(z) >= 5 /\ z # t /\ z # At(f, 6)
                                /\ (z \in KnightT[t] \/ (LET df == FileOf(z) - f  dr == RankOf(z) - 7
                                                               ab(v) == IF v < 0 THEN -v ELSE v IN
                                                           ab(df) <= 2 /\ ab(dr) <= 2 /\ z # At(f, 7)))
                                /\ (helper # "." \/ InSlice(z)) }, wk \in {0, 7} :
       \E holes \in { H \in SUBSET (KingT[bk] \ {t, At(f, 6)}) : Cardinality(H) <= 2 },
          h \in (IF helper = "." THEN {-1} ELSE { z \in Sq : InSlice(z) }) :
          LET blockers == { z \in KingT[bk] \ ({t, At(f, 6)} \cup holes) : TRUE }
              bseq == SortedSeq(blockers)
              men == << <<"P", At(f, 6)>>, <<x, t>>, <<"k", bk>>, <<"K", wk>> >>
                     \o [i \in 1..Len(bseq) |-> <<IF RankOf(bseq[i]) = 7 THEN "n" ELSE "p", bseq[i]>>]
                     \o (IF h = -1 THEN <<>> ELSE << <<helper, h>> >>)
          IN /\ Distinct([i \in 1..Len(men) |-> men[i][2]])
             /\ p = Mk0(PlaceAll(EmptyBoard, men), "w", {})
PromoMateOK(p) == ValidPosition(p) /\ p.b[At(PromoFile, 6)] = "P"

(* ---- battery: two white heavy pieces doubled on the d- or e-file against a castled black king behind a pawn shield,
   a black piece on the file's eighth-rank square and possibly a second defender on the back rank: the positions in
   which exchanges on the back rank end in mate (or just fail to) - captures-only lines, where a search's horizon
   extension works.  White to move. *)
BatteryGen(p) ==
    LET f == PromoFile
        kinds == << <<"R", "R">>, <<"R", "Q">>, <<"Q", "R">>, <<"Q", "Q">> >>
        shields == SUBSET {53, 54, 55}
        d1s == <<"r", "q", "n", "b">>
        d2s == <<-1, 56, 57, 58, 59>>
    IN \E r1 \in 0..2 : \E r2 \in (r1 + 1)..3 : \E kd \in 1..4, bk \in {62, 63}, sh \in shields, i1 \in 1..4, i2 \in 1..5 :
          /\ InSlice(Cardinality(sh) * 20 + i1 * 5 + i2 + r1 + r2)
          /\ LET men == << <<"K", 6>>, <<kinds[kd][1], At(f, r1)>>, <<kinds[kd][2], At(f, r2)>>, <<"k", bk>>, <<d1s[i1], At(f, 7)>> >>
                        \o [i \in 1..Cardinality(sh) |-> <<"p", SortedSeq(sh)[i]>>]
                        \o (IF d2s[i2] = -1 THEN <<>> ELSE << <<"r", d2s[i2]>> >>)
             IN /\ Distinct([i \in 1..Len(men) |-> men[i][2]])
                /\ p = Mk0(PlaceAll(EmptyBoard, men), "w", {})
BatteryOK(p) == ValidPosition(p)

(* ---- discover: a white queen behind a white knight, bishop or rook on a line with the black king (a battery), and
   a second white queen pinning a black piece to that king along another line; then every move that gives a DOUBLE
   check is played: the positions in which two checkers and a pin must be recorded at once by the incremental
   bookkeeping.  White to move. *)
DiscoverGen(p) ==
    LET bk == IF PromoFile % 2 = 0 THEN 60 ELSE 35
    IN \E d1 \in 1..8, d2 \in 1..8 :
       /\ d1 # d2
       /\ \E i \in 1..Len(Ray[bk][d1]), i2 \in 1..Len(Ray[bk][d2]) :
          \E j \in (i + 1)..Len(Ray[bk][d1]), j2 \in (i2 + 1)..Len(Ray[bk][d2]) :
            /\ InSlice(d1 * 131 + d2 * 17 + i * 7 + j * 5 + i2 * 3 + j2)
            /\ \E x \in {"N", "B", "R"}, y \in {"n", "b", "r", "p"}, wk \in {0, 7, 56} :
                 LET men == << <<"k", bk>>, <<x, Ray[bk][d1][i]>>, <<"Q", Ray[bk][d1][j]>>,
                               <<y, Ray[bk][d2][i2]>>, <<"Q", Ray[bk][d2][j2]>>, <<"K", wk>> >>
                 IN /\ Distinct([q \in 1..Len(men) |-> men[q][2]])
                    /\ p = Mk0(PlaceAll(EmptyBoard, men), "w", {})
DiscoverOK(p) == ValidPosition(p) /\ \A z \in Sq : p.b[z] = "p" => RankOf(z) \in 1..6

Gen(p) == CASE Family = "ep" -> EpGen(p) /\ EpRootOK(p)
            [] Family = "discover" -> DiscoverGen(p) /\ DiscoverOK(p)
            [] Family = "battery" -> BatteryGen(p) /\ BatteryOK(p)
            [] Family = "promomate" -> PromoMateGen(p) /\ PromoMateOK(p)
            [] Family = "evade" -> EvadeGen(p) /\ EvadeOK(p)
            [] Family = "castle" -> CastleGen(p) /\ CastleOK(p)
            [] Family = "promo" -> PromoGen(p) /\ PromoOK(p)
            [] Family = "mate" -> MateGen(p) /\ MateOK(p)

VARIABLES pos, rootpos, path, gen
vars == <<pos, rootpos, path, gen>>
Init == /\ Gen(gen) /\ \E mirrored \in BOOLEAN : pos = IF mirrored THEN Mirror(gen) ELSE gen
        /\ rootpos = pos /\ path = <<>>

\* which moves are followed from a state (family-specific, see the header)
Follow(m) ==
    CASE Family = "ep" -> IF path = <<>> THEN KindOf(pos.b[m.from]) = "P" /\ (RankOf(m.to) - RankOf(m.from)) \in {2, -2}
                          ELSE Len(path) = 1 /\ IsEp(pos, m)
      [] Family = "castle" -> path = <<>> /\ KindOf(pos.b[m.from]) \in {"K", "R"}
      [] Family = "promo" -> path = <<>> /\ KindOf(pos.b[m.from]) = "P"
      [] Family = "evade" -> FALSE
      [] Family = "discover" -> path = <<>> /\ (LET n == Apply(pos, m) IN Cardinality(Checkers(n)) >= 2)
      [] OTHER -> FALSE
Next == \E m \in Legal(pos) : Follow(m) /\ pos' = Apply(pos, m) /\ path' = Append(path, Code(m)) /\ UNCHANGED <<rootpos, gen>>
Spec == Init /\ [][Next]_vars
View == <<pos, rootpos>>

EmitPos == PrintT(<<"POS", ToJson([root |-> 0, name |-> Family, rootfen |-> ToFEN(rootpos), path |-> path, exp |-> Expect(pos)])>>)
NoPromoAtRoot == \A m \in Legal(pos) : m.promo = ""
EmitSearch == PrintT(<<"SPOS", ToJson([fen |-> ToFEN(pos), mirror |-> ToFEN(Mirror(pos)),
                                         mates |-> SortedSeq(Codes(MateMoves(pos))), nopromo |-> NoPromoAtRoot])>>)
\* only positions in which some mating move is a capture (for the families that look for mates by capture:
\* the engine treats captures specially - quiescence, insufficient-material test - before its mate test)
CaptureMates(p) == { m \in { m \in Legal(p) : IsCapture(p, m) } : LET q == Apply(p, m) IN InCheck(q) /\ Legal(q) = {} }
EmitCaptureMates == (CaptureMates(pos) # {}) =>
                    LET mm == MateMoves(pos) IN
                    PrintT(<<"SPOS", ToJson([fen |-> ToFEN(pos), mirror |-> ToFEN(Mirror(pos)),
                                             mates |-> SortedSeq(Codes(mm)), nopromo |-> NoPromoAtRoot])>>)
\* only positions in which the mover is in check, has at most two legal moves and one of them mates (a forced
\* move is a natural place for a shortcut in a search: "nothing to choose, play it")
EmitForcedMates == (InCheck(pos) /\ Cardinality(Legal(pos)) <= 2 /\ MateMoves(pos) # {}) =>
                   PrintT(<<"SPOS", ToJson([fen |-> ToFEN(pos), mirror |-> ToFEN(Mirror(pos)),
                                            mates |-> SortedSeq(Codes(MateMoves(pos))), nopromo |-> NoPromoAtRoot])>>)
\* only positions in which an under-promotion mates and the queen promotion on the same squares does not, or in
\* which a promotion by a straight push mates while the same pawn could also capture (a search that looks at
\* captures first, under a destination mask, has then taken moves of that pawn before it comes to the push)
UnderPromoMate == \E m \in MateMoves(pos) : m.promo \in {"N", "B", "R"} /\ M(m.from, m.to, "Q") \notin MateMoves(pos)
PushPromoMateBesideCapture == \E m \in MateMoves(pos) : /\ m.promo # "" /\ FileOf(m.from) = FileOf(m.to)
                                                       /\ \E c \in Legal(pos) : c.from = m.from /\ FileOf(c.to) # FileOf(c.from)
EmitUnderPromoMates == (UnderPromoMate \/ PushPromoMateBesideCapture) =>
                   PrintT(<<"SPOS", ToJson([fen |-> ToFEN(pos), mirror |-> ToFEN(Mirror(pos)),
                                            mates |-> SortedSeq(Codes(MateMoves(pos))), nopromo |-> NoPromoAtRoot])>>)
=============================================================================
