------------------------------ MODULE EnumIter ------------------------------
(***************************************************************************)
(* Layer R for C19 (iterators): an enumerating iterator over N values      *)
(* behaves like a slice iterator: the remaining items are lo..hi-1, it can *)
(* be consumed from both ends, nth skips, size_hint is exact.              *)
(* Every transition of the (small, finite) state graph is printed with the *)
(* path that reaches its source state - one replayable behaviour per       *)
(* transition (the path is a history variable hidden by VIEW).             *)
(***************************************************************************)
EXTENDS Integers, Sequences, TLC, Json, IOUtils

N == atoi(IOEnv.VERIF_N)
DoubleEnded == IOEnv.VERIF_DE = "1"
VARIABLES lo, hi, path
vars == <<lo, hi, path>>

Remaining == hi - lo
\* skip counts: every value up to one past the end, and values around the 8-, 16- and 31-bit boundaries
Skips == (0..(N + 1)) \cup {255, 256, 257, 65535, 65536, 65537, 2147483647}
Ops == {<<"next", 0>>} \cup (IF DoubleEnded THEN {<<"next_back", 0>>} ELSE {})
       \cup { <<"nth", k>> : k \in Skips }
       \cup (IF DoubleEnded THEN { <<"nth_back", k>> : k \in Skips } ELSE {})

\* result (-1 = None) and successor of one operation
Result(op) == CASE op[1] = "next" -> IF lo < hi THEN lo ELSE -1
                [] op[1] = "next_back" -> IF lo < hi THEN hi - 1 ELSE -1
                [] op[1] = "nth" -> IF op[2] < Remaining THEN lo + op[2] ELSE -1
                [] op[1] = "nth_back" -> IF op[2] < Remaining THEN hi - 1 - op[2] ELSE -1
NewLo(op) == CASE op[1] = "next" -> IF lo < hi THEN lo + 1 ELSE lo
               [] op[1] = "nth" -> IF op[2] < Remaining THEN lo + op[2] + 1 ELSE hi
               [] OTHER -> lo
NewHi(op) == CASE op[1] = "next_back" -> IF lo < hi THEN hi - 1 ELSE hi
               [] op[1] = "nth_back" -> IF op[2] < Remaining THEN hi - 1 - op[2] ELSE lo
               [] OTHER -> hi

Init == lo = 0 /\ hi = N /\ path = <<>>
Next == \E op \in Ops : /\ lo' = NewLo(op) /\ hi' = NewHi(op)
                        /\ path' = Append(path, [op |-> op[1], k |-> op[2], res |-> Result(op),
                                                 left |-> NewHi(op) - NewLo(op)])
Spec == Init /\ [][Next]_vars
View == <<lo, hi>>

\* safety of the model: the remaining range never inverts
RangeOK == 0 <= lo /\ lo <= hi /\ hi <= N
\* one line per generated transition
EmitTransition == PrintT(<<"ENUM", ToJson([n |-> N, path |-> path'])>>)
=============================================================================
