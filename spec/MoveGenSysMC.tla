---------------------------- MODULE MoveGenSysMC ----------------------------
(* Layer S against layer R on the positions of the game state machine (roots of roots.json,
   breadth-first to the depth bound): the implementation-shaped generator yields exactly the legal
   moves, its entry list fits the fixed capacity, the from-scratch caches are the checking pieces
   and the sole blockers, and the incremental update of every legal move gives the from-scratch
   caches of the successor. *)
EXTENDS MoveGenSys, Json, IOUtils

ROOTS == JsonDeserialize(IOEnv.VERIF_ROOTS)
Depth == atoi(IOEnv.VERIF_DEPTH)
RootIdx == JsonDeserialize(IOEnv.VERIF_ROOTSEL)
PosOfJson(j) == [ b |-> [s \in Sq |-> j.b[s+1]], turn |-> j.t,
                  cr |-> { j.cr[i] : i \in 1..Len(j.cr) }, ep |-> j.ep, hm |-> j.hm, fm |-> j.fm ]
VARIABLES pos, depth
vars == <<pos, depth>>
Init == \E i \in { RootIdx[j] : j \in 1..Len(RootIdx) } : pos = PosOfJson(ROOTS[i].pos) /\ depth = 0
Next == depth < Depth /\ \E m \in Legal(pos) : pos' = Apply(pos, m) /\ depth' = depth + 1
Spec == Init /\ [][Next]_vars
View == pos

GeneratorExact == SysLegal(pos) = Legal(pos)
EntriesDisjoint == LET es == SysEntries(pos) IN
                   \A i, j \in 1..Len(es) : i # j => EntryMoves(es[i]) \cap EntryMoves(es[j]) = {}
Capacity == Len(SysEntries(pos)) <= 18
CachesExact == LET ca == SysCaches(pos) IN ca.checkers = Checkers(pos) /\ ca.pinned = Blockers(pos)
IncrementalExact == \A m \in Legal(pos) : SysMoveCaches(pos, m) = SysCaches(Apply(pos, m))
=============================================================================
