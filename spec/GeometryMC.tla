----------------------------- MODULE GeometryMC -----------------------------
(* C09: TLC prints the complete tables from the geometric definitions; the harness compares the
   checked-in tables of chess-lookup and the functions of chess-lookup-generator with them.
   C08: TLC enumerates, for each square, every subset of the square's own ray squares with the
   ray-cast attack set. *)
EXTENDS Geometry, Wire, SequencesExt

S2Q(S) == SortedSeq(S)
SqRow(s) == [ t |-> "sq", s |-> s, knight |-> S2Q(KnightMoves(s)), king |-> S2Q(KingMoves(s)),
              wpush |-> S2Q(PawnPushes("w", s)), bpush |-> S2Q(PawnPushes("b", s)),
              watk |-> S2Q(PawnAttacks("w", s)), batk |-> S2Q(PawnAttacks("b", s)),
              rook |-> S2Q(RookRays(s)), bishop |-> S2Q(BishopRays(s)) ]
PairRow(a) == [ t |-> "pair", a |-> a, between |-> [ i \in 1..64 |-> S2Q(Between(a, i - 1)) ],
                line |-> [ i \in 1..64 |-> S2Q(Line(a, i - 1)) ], dist |-> [ i \in 1..64 |-> Distance(a, i - 1) ] ]
Relevant(c, s) == PawnPushes(c, s) \cup PawnAttacks(c, s)
PawnRow(c, s) == [ t |-> "pawn", s |-> s, c |-> c,
                   cases |-> LET occs == SUBSET Relevant(c, s)
                                 seq == SetToSeq(occs) IN
                             [ i \in 1..Len(seq) |-> [ occ |-> S2Q(seq[i]), quiets |-> S2Q(PawnQuiets(c, s, seq[i])),
                                                       attacks |-> S2Q(PawnCaptures(c, s, seq[i])),
                                                       moves |-> S2Q(PawnMovesOcc(c, s, seq[i])) ] ] ]
ConstRow == [ t |-> "const",
    adjacent_files |-> [ i \in 1..8 |-> S2Q(AdjacentFiles(i - 1)) ],
    adjacent_ranks |-> [ i \in 1..8 |-> S2Q(AdjacentRanks(i - 1)) ],
    pawn_double_source |-> S2Q(RankSet(1) \cup RankSet(6)), pawn_double_dest |-> S2Q(RankSet(3) \cup RankSet(4)),
    backrank |-> <<0, 7>>, backrank_bb |-> << S2Q(RankSet(0)), S2Q(RankSet(7)) >>,
    castle_moves |-> S2Q({2, 4, 6, 58, 60, 62}),
    pawn_double_move |-> << S2Q(RankSet(1) \cup RankSet(3)), S2Q(RankSet(4) \cup RankSet(6)) >>,
    rook_castle_queenside |-> S2Q(FileSet(0) \cup FileSet(3)), rook_castle_kingside |-> S2Q(FileSet(7) \cup FileSet(5)),
    castle_rook_start |-> <<0,0,0,0,7,7,7,7>>, castle_rook_end |-> <<3,3,3,3,5,5,5,5>>,
    promotion_rank |-> <<7, 0>>, double_source_rank |-> <<1, 6>>, double_dest_rank |-> <<3, 4>>,
    kingside_castle_files |-> S2Q(FileSet(5) \cup FileSet(6)), queenside_castle_files |-> S2Q(FileSet(1) \cup FileSet(2) \cup FileSet(3)),
    kingside_safe_files |-> S2Q(FileSet(5) \cup FileSet(6)), queenside_safe_files |-> S2Q(FileSet(2) \cup FileSet(3)),
    ep_capture_rank |-> <<5, 2>>, ep_pawn_rank |-> <<4, 3>> ]

VARIABLES kind, i
vars == <<kind, i>>
Init == \/ kind = "sq" /\ i \in Sq
        \/ kind = "pair" /\ i \in Sq
        \/ kind = "pw" /\ i \in Sq
        \/ kind = "pb" /\ i \in Sq
        \/ kind = "const" /\ i = 0
Next == UNCHANGED vars
Spec == Init /\ [][Next]_vars
Row == CASE kind = "sq" -> SqRow(i) [] kind = "pair" -> PairRow(i) [] kind = "pw" -> PawnRow("w", i)
         [] kind = "pb" -> PawnRow("b", i) [] OTHER -> ConstRow
EmitInv == PrintT(<<"GEO", ToJson(Row)>>)
=============================================================================
