------------------------------ MODULE SlidersMC ------------------------------
(* C08: for each selected square and slider kind, every subset of the square's own ray squares
   (mode "all") or of its inner ray squares (mode "inner": the last square of each ray left
   empty) together with the ray-cast attack set Geometry!RayAttack.  The answer of the lookup
   depends only on these squares; independence from all others is sampled by the harness. *)
EXTENDS Geometry, Json, IOUtils

Squares == LET q == JsonDeserialize(IOEnv.VERIF_SQS) IN { q[i] : i \in 1..Len(q) }
Mode == IOEnv.VERIF_MODE
DirsOf(k) == IF k = "R" THEN RookDirs ELSE BishopDirs
Inner(s, k) == UNION { { Ray[s][d][i] : i \in 1..(Len(Ray[s][d]) - 1) } : d \in DirsOf(k) }
Domain(s, k) == IF Mode = "inner" THEN Inner(s, k) ELSE RaySet(s, DirsOf(k))

RECURSIVE Sorted(_)
Sorted(S) == IF S = {} THEN <<>> ELSE LET m == CHOOSE x \in S : \A y \in S : x <= y IN <<m>> \o Sorted(S \ {m})

VARIABLES s, k, occ
vars == <<s, k, occ>>
Init == /\ s \in Squares /\ k \in {"R", "B"} /\ occ \in SUBSET Domain(s, k)
Next == UNCHANGED vars
Spec == Init /\ [][Next]_vars
EmitInv == PrintT(<<"SL", ToJson([s |-> s, k |-> k, o |-> Sorted(occ), a |-> Sorted(RayAttack(s, occ, DirsOf(k)))])>>)
=============================================================================
