#!/usr/bin/env python3
"""Translate spec/roots.txt (name | tags | FEN) into spec/roots.json.

Each entry carries the FEN text (used by the harness through the repository's parser) and the
abstract position record (used by TLC).  This tiny translator is independent of the repository's
parser; the binding between the two is checked at run time (the first event of every trace must
project to the record given here, and TLC ASSUMEs ValidPosition of every record)."""
import json, sys, os

def fen_to_pos(fen):
    placement, turn, cr, ep, hm, fm = fen.split()
    b = ["."] * 64
    for ri, row in enumerate(placement.split("/")):
        rank = 7 - ri
        f = 0
        for ch in row:
            if ch.isdigit():
                f += int(ch)
            else:
                b[rank * 8 + f] = ch
                f += 1
        assert f == 8, fen
    return {"b": b, "t": turn, "cr": [] if cr == "-" else list(cr),
            "ep": -1 if ep == "-" else ord(ep[0]) - ord("a"), "hm": int(hm), "fm": int(fm)}

def main():
    here = os.path.dirname(os.path.abspath(__file__))
    src = os.path.join(here, "..", "spec", "roots.txt")
    out = os.path.join(here, "..", "spec", "roots.json")
    roots = []
    for line in open(src):
        line = line.strip()
        if not line or line.startswith("#"):
            continue
        name, tags, fen = [x.strip() for x in line.split("|")]
        roots.append({"name": name, "tags": tags.split(","), "fen": fen, "pos": fen_to_pos(fen)})
    json.dump(roots, open(out, "w"), separators=(",", ":"))
    print(len(roots), "roots")

if __name__ == "__main__":
    main()
