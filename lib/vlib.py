"""Orchestration library for the model-based checks of RustyYato/chess (see /verif/DESIGN.md).

A check is a Python function run(ctx) that combines three kinds of steps
  * ctx.tlc(...)      - run TLC on a module of /verif/spec (model checking, behaviour generation,
                        trace validation),
  * ctx.harness(...)  - run the Rust harness built from /repo's current working tree,
  * ctx.violation(...) / ctx.note(...) - record what the steps found,
and ends with ctx.finish(), which writes /verif/evidence/<id>.json and sets the exit status:
  0 = the property held on everything explored (possibly with KNOWN-FINDING lines),
  1 = at least one `VIOLATION property=<id> replay=<path>` line was printed,
  2 = tool error / timeout (never used for a property failure).
"""
import fcntl
import json
import os
import re
import shutil
import subprocess
import sys
import time
from concurrent.futures import ThreadPoolExecutor

VERIF = os.path.dirname(os.path.dirname(os.path.abspath(__file__)))
SPEC = os.path.join(VERIF, "spec")
HARNESS = os.path.join(VERIF, "harness")
VH = os.path.join(HARNESS, "target", "chk", "vh")
WORK = os.path.join(VERIF, "work")
REPLAYS = os.path.join(VERIF, "replays")
EVIDENCE = os.path.join(VERIF, "evidence")
KNOWN = os.path.join(VERIF, "KNOWN_FINDINGS.txt")
ROOTS = os.path.join(SPEC, "roots.json")
NCPU = os.cpu_count() or 4

TLC_CP = "/opt/veriftools/tla/tla2tools.jar:/opt/veriftools/tla/CommunityModules-deps.jar"


class ToolError(Exception):
    pass


def log(*a):
    print("[vcheck]", *a, file=sys.stderr, flush=True)


def load_roots():
    return json.load(open(ROOTS))


def root_indices(tags=None, names=None):
    """1-based indices of roots having any of the tags (or listed by name)"""
    out = []
    for i, r in enumerate(load_roots()):
        if (tags and set(tags) & set(r["tags"])) or (names and r["name"] in names) or (not tags and not names):
            out.append(i + 1)
    return out


def known_findings(prop):
    """entries of KNOWN_FINDINGS.txt for a property: list of dicts(kind, prop, fields, text)"""
    out = []
    if not os.path.exists(KNOWN):
        return out
    for line in open(KNOWN):
        line = line.strip()
        if not line or line.startswith("#"):
            continue
        m = re.match(r"^(known|fixed):\s+property=(\S+)\s+(.*)$", line)
        if not m or m.group(2) != prop:
            continue
        rest = m.group(3)
        head, _, text = rest.partition("::")
        fields = dict(kv.split("=", 1) for kv in head.split() if "=" in kv)
        out.append({"kind": m.group(1), "prop": prop, "fields": fields, "text": text.strip(), "raw": line})
    return out


import threading
_NAME_LOCK = threading.Lock()


class Ctx:
    def __init__(self, prop, tier, seed, level):
        self.prop = prop
        self.tier = tier
        self.seed = seed
        self.level = level
        self.t0 = time.time()
        self.work = os.path.join(WORK, "%s-%s-%d" % (prop, tier, os.getpid()))
        shutil.rmtree(self.work, ignore_errors=True)
        os.makedirs(self.work)
        os.makedirs(REPLAYS, exist_ok=True)
        os.makedirs(EVIDENCE, exist_ok=True)
        self.violations = []       # dicts
        self.known_hits = []       # text
        self.notes = []
        self.cov = {
            "states": 0, "transitions": 0, "traces_validated_against_impl": 0,
            "evaluations": 0, "distinct_nontrivial": 0, "samples": [], "rule": "",
            "steps": [], "other_property_mismatches": {}, "model_drift": 0,
        }
        self.assumptions = []
        self._keys = None
        self._tlc_names = set()

    # ------------------------------------------------------------------ building
    def build(self):
        """(re)build the harness from /repo's current working tree; serialised across checks"""
        os.makedirs(WORK, exist_ok=True)
        lock = open(os.path.join(WORK, ".build.lock"), "w")
        fcntl.flock(lock, fcntl.LOCK_EX)
        try:
            t = time.time()
            # keep the harness lock file in step with the repository's
            src_lock = "/repo/Cargo.lock"
            cmd = ["cargo", "build", "--profile", "chk", "--offline"]
            alt = os.environ.get("VERIF_REPO")
            if alt and os.path.abspath(alt) != "/repo":
                # build against another checkout of the repository (background runs use a snapshot
                # so that edits to /repo do not leak into them): cargo's `paths` override redirects
                # the path dependencies on /repo/<crate>
                crates = [d for d in sorted(os.listdir(alt)) if os.path.exists(os.path.join(alt, d, "Cargo.toml"))]
                cmd += ["--config", "paths=[%s]" % ",".join('"%s"' % os.path.join(alt, d) for d in crates)]
            # the plugin (cdylib of chess-bot) is uplifted to a file name without a hash: after a switch
            # of the source checkout cargo may consider both units fresh and leave the other one's
            # library in place, so force that one crate to be rebuilt when the checkout changes
            eff = os.path.abspath(alt) if alt else "/repo"
            mark = os.path.join(HARNESS, "target", ".verif_repo")
            last = open(mark).read().strip() if os.path.exists(mark) else "/repo"
            if last != eff:
                subprocess.run(["cargo", "clean", "--profile", "chk", "-p", "chess-bot", "--offline"], cwd=HARNESS,
                               stdout=subprocess.DEVNULL, stderr=subprocess.DEVNULL)
            p = subprocess.run(cmd, cwd=HARNESS,
                               stdout=subprocess.PIPE, stderr=subprocess.STDOUT, text=True,
                               env=dict(os.environ, CARGO_NET_OFFLINE="true"))
            if p.returncode == 0 and os.path.isdir(os.path.dirname(mark)):
                open(mark, "w").write(eff)
            if p.returncode != 0:
                sys.stderr.write(p.stdout[-6000:])
                raise ToolError("harness build failed (does /repo still compile?)")
            self.cov["steps"].append({"step": "cargo build", "wall_s": round(time.time() - t, 1)})
        finally:
            fcntl.flock(lock, fcntl.LOCK_UN)
            lock.close()

    def keys(self):
        if self._keys is None:
            path = os.path.join(self.work, "keys.json")
            self.harness(["keys", "--out", path])
            self._keys = path
        return self._keys

    # ------------------------------------------------------------------ harness
    def harness(self, args, stdin_path=None, out_path=None, timeout=1800, env=None):
        """run vh; returns dict(rc, mismatches, panics, summary, drift, out_path)"""
        out_path = out_path or os.path.join(self.work, "vh-%d.out" % (time.time_ns() % 10**9))
        with open(out_path, "w") as out:
            stdin = open(stdin_path) if stdin_path else subprocess.DEVNULL
            try:
                p = subprocess.run([VH] + [str(a) for a in args], stdin=stdin, stdout=out,
                                   stderr=subprocess.PIPE, text=True, timeout=timeout,
                                   env=dict(os.environ, VERIF_ROOTS=ROOTS, **(env or {})))
                rc, err = p.returncode, p.stderr
            except subprocess.TimeoutExpired:
                rc, err = -999, "timeout"
            finally:
                if stdin_path:
                    stdin.close()
        if os.environ.get("VERIF_VERBOSE"):
            log("t+%.0fs harness %s done" % (time.time() - self.t0, args[:1]))
        res = {"rc": rc, "mismatches": [], "panics": [], "summary": None, "drift": [], "out_path": out_path,
               "stderr": err[-2000:] if err else "", "args": args}
        for line in open(out_path, errors="replace"):
            if line.startswith("MISMATCH "):
                res["mismatches"].append(json.loads(line[9:]))
            elif line.startswith("PANIC "):
                res["panics"].append(json.loads(line[6:]))
            elif line.startswith("SUMMARY "):
                res["summary"] = json.loads(line[8:])
            elif line.startswith("DRIFT "):
                res["drift"].append(json.loads(line[6:]))
        if rc == 2 or rc == -999:
            raise ToolError("harness %s failed rc=%s: %s" % (args[:2], rc, res["stderr"]))
        if rc != 0 and not res["panics"]:
            # the process died without our panic hook speaking (abort across an FFI boundary, a
            # non-unwinding panic inside the plugin, a signal): that is data about the code under
            # test, not a tool error
            tail = [x for x in (err or "").strip().split("\n") if x][-12:]
            res["panics"].append({"op": "process exited abnormally (rc=%s) while running %s" % (rc, " ".join(str(a) for a in args[:6])),
                                  "msg": " | ".join(t.strip() for t in tail if "panicked" in t or "overflow" in t or "Abort" in t or "unsafe" in t)[:400],
                                  "stderr_tail": tail[-6:]})
        return res

    # ------------------------------------------------------------------ TLC
    def tlc(self, module, cfg, env=None, workers=1, timeout=1200, name=None, simulate=None,
            deque=False, xmx=None, extra=None):
        """run TLC on spec/<module>.tla with spec/<cfg>; returns dict with parsed statistics and
        the path of the raw output"""
        name = name or "%s-%d" % (module, time.time_ns() % 10**9)
        # two runs in flight must never share an output file or a metadir
        with _NAME_LOCK:
            base, k = name, 1
            while name in self._tlc_names:
                k += 1
                name = "%s~%d" % (base, k)
            self._tlc_names.add(name)
        out_path = os.path.join(self.work, name + ".tlc.out")
        meta = os.path.join(self.work, name + ".meta")
        jopts = ["-Xss1g" if workers == 1 else "-Xss256m"]
        if deque:
            jopts.append("-Dtlc2.tool.queue.IStateQueue=StateDeque")
        if workers == 1:
            # many single-worker JVMs run side by side: keep each one to a few threads
            jopts += ["-XX:+UseSerialGC", "-XX:CICompilerCount=2"]
        else:
            jopts += ["-XX:+UseParallelGC"]
        cmd = ["timeout", str(timeout), "java"] + jopts
        cmd += ["-Xmx%s" % (xmx or ("2g" if workers == 1 else "12g"))]
        cmd += ["-cp", TLC_CP, "tlc2.TLC", "-workers", str(workers), "-metadir", meta, "-cleanup",
                "-noGenerateSpecTE", "-config", cfg]
        if simulate:
            cmd += ["-simulate", simulate]
        cmd += (extra or [])
        cmd += [module + ".tla"]
        e = dict(os.environ)
        e.pop("JAVA_TOOL_OPTIONS", None)
        e["VERIF_ROOTS"] = ROOTS
        e.update({k: str(v) for k, v in (env or {}).items()})
        t = time.time()
        with open(out_path, "w") as out:
            p = subprocess.run(cmd, cwd=SPEC, stdout=out, stderr=subprocess.STDOUT, env=e)
        shutil.rmtree(meta, ignore_errors=True)
        res = {"rc": p.returncode, "out_path": out_path, "generated": 0, "distinct": 0, "depth": 0,
               "errors": [], "violated": [], "wall_s": round(time.time() - t, 1), "name": name}
        for line in open(out_path, errors="replace"):
            m = re.match(r"^(\d+) states generated, (\d+) distinct states found", line)
            if m:
                res["generated"], res["distinct"] = int(m.group(1)), int(m.group(2))
            m = re.match(r"^The depth of the complete state graph search is (\d+)", line)
            if m:
                res["depth"] = int(m.group(1))
            m = re.match(r"^Error: (Invariant|Action property|Temporal properties|Assumption) ?(\S*)", line)
            if m and ("violated" in line or "false" in line):
                res["violated"].append(line.strip())
            elif line.startswith("Error:"):
                res["errors"].append(line.strip())
        if p.returncode == 124:
            raise ToolError("TLC timed out after %ss on %s" % (timeout, module))
        if os.environ.get("VERIF_VERBOSE"):
            log("t+%.0fs tlc %s %s done in %.1fs" % (time.time() - self.t0, module, name, res["wall_s"]))
        self.cov["steps"].append({"step": "tlc " + module + " " + cfg, "generated": res["generated"],
                                  "distinct": res["distinct"], "depth": res["depth"], "wall_s": res["wall_s"]})
        return res

    @staticmethod
    def tlc_lines(out_path, tag):
        """yield the JSON payloads of PrintT(<<tag, json-string>>) lines"""
        prefix = '<<"%s", ' % tag
        for line in open(out_path, errors="replace"):
            if line.startswith(prefix) and line.rstrip().endswith(">>"):
                lit = line.rstrip()[len(prefix):-2]
                try:
                    yield json.loads(json.loads(lit))
                except Exception:
                    continue

    def tlc_hard_errors(self, res, allow=()):
        """errors other than invariant violations mean the model or the tool is broken"""
        errs = [e for e in res["errors"] if not any(a in e for a in allow)]
        return errs

    # ------------------------------------------------------------------ parallel helpers
    def pmap(self, fn, items, jobs=None):
        with ThreadPoolExecutor(max_workers=jobs or max(1, NCPU - 2)) as ex:
            return list(ex.map(fn, items))

    def split_lines(self, path, tag, n):
        """split the lines of a TLC output that start with <<"tag" into n files"""
        prefix = '<<"%s", ' % tag
        outs = [open(os.path.join(self.work, "%s.%s.part%d" % (os.path.basename(path), tag, i)), "w") for i in range(n)]
        k = 0
        for line in open(path, errors="replace"):
            if line.startswith(prefix):
                outs[k % n].write(line)
                k += 1
        for o in outs:
            o.close()
        return [o.name for o in outs], k

    # ------------------------------------------------------------------ recording results
    def violation(self, check, detail, replay):
        """record a violation of this check's property; replay is a JSON-serialisable description"""
        n = len(self.violations) + 1
        path = os.path.join(REPLAYS, "%s-%s-%d-%d.json" % (self.prop, self.tier, self.seed, n))
        rec = {"property": self.prop, "check": check, "tier": self.tier, "seed": self.seed,
               "detail": detail, "replay": replay}
        if n <= 20:
            with open(path, "w") as f:
                json.dump(rec, f, indent=1)
        else:
            path = os.path.join(REPLAYS, "%s-%s-%d-%d.json" % (self.prop, self.tier, self.seed, 20))
        self.violations.append(rec)
        if n <= 20:
            print("VIOLATION property=%s replay=%s" % (self.prop, path), flush=True)
            log("  ", check, json.dumps(detail)[:400])

    def other(self, prop, n=1):
        d = self.cov["other_property_mismatches"]
        d[prop] = d.get(prop, 0) + n

    def known(self, text):
        self.known_hits.append(text)
        print("KNOWN-FINDING: property=%s %s" % (self.prop, text), flush=True)

    def note(self, text):
        self.notes.append(text)
        log("note:", text)

    def sample(self, s):
        if len(self.cov["samples"]) < 6:
            self.cov["samples"].append(s)

    def absorb(self, hres, kinds_to_prop=None):
        """fold a harness result into the run: mismatches of this property become violations,
        others are counted; panics are reported by the caller's policy"""
        for m in hres["mismatches"]:
            if m["prop"] == self.prop:
                self.violation(m["kind"], {"case": m.get("case"), "exp": m.get("exp"), "got": m.get("got")},
                               {"kind": "harness", "args": hres["args"], "mismatch": m})
            else:
                self.other(m["prop"])
        # model drift is counted by the callers from the harness summary (DRIFT lines are samples)

    # ------------------------------------------------------------------ the end
    def finish(self):
        wall = round(time.time() - self.t0, 1)
        cov = self.cov
        if not cov["samples"]:
            cov["samples"] = ["(no case was explored)"]
        ev = {
            "property_id": self.prop, "tier": self.tier, "seed": self.seed, "level": self.level,
            "coverage": cov, "assumptions": self.assumptions, "wall_s": wall,
            "violations": len(self.violations), "known_findings_reproduced": self.known_hits,
            "notes": self.notes,
        }
        with open(os.path.join(EVIDENCE, self.prop + ".json"), "w") as f:
            json.dump(ev, f, indent=1)
        shutil.rmtree(self.work, ignore_errors=True)
        log("%s %s: %d violation(s), %d known finding(s), %.1fs" %
            (self.prop, self.tier, len(self.violations), len(self.known_hits), wall))
        return 1 if self.violations else 0
