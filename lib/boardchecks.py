"""Board-level checks C01-C05 (and the board part of C06/C07): one pipeline, several emphases.

spec -> impl : TLC explores the game state machine of layer R (ChessMC.tla, Families.tla) from
               chosen roots and prints, per distinct position, the path that reaches it and what
               the rules prescribe there; the harness replays every line into the real code.
impl -> spec : the harness plays seeded walks through the real code and records one event per
               public call; TLC validates the trace against the same state machine
               (ChessTrace.tla) and names the check that fails.
"""
import json
import os
import shutil

from vlib import ROOTS, REPLAYS, NCPU, ToolError, log, root_indices

PROBE_EVERY = {"quick": 40, "thorough": 16}


def emit_and_replay(ctx, module, cfg, env, label, probe_every, tag="POS", timeout=1500, simulate=None, extra=None):
    """TLC behaviour generation followed by parallel replay into the implementation"""
    import time
    t0 = time.time()
    e = dict(env)
    e["VERIF_KEYS"] = ctx.keys()
    res = ctx.tlc(module, cfg, env=e, workers=NCPU, timeout=timeout, name=label, simulate=simulate, extra=extra)
    t1 = time.time()
    hard = ctx.tlc_hard_errors(res)
    if hard or res["violated"]:
        raise ToolError("TLC failed while generating behaviours (%s): %s" % (label, (hard + res["violated"])[:3]))
    jobs = max(1, NCPU - 2)
    parts, n = ctx.split_lines(res["out_path"], tag, jobs)
    os.remove(res["out_path"])
    if simulate:
        res["distinct"] = res["generated"] = n
    if n != res["distinct"]:
        ctx.note("%s: TLC reported %d distinct states but printed %d %s lines" % (label, res["distinct"], n, tag))

    def one(p):
        return ctx.harness(["replay-pos", "--probe-every", probe_every, "--tag", tag], stdin_path=p)

    results = ctx.pmap(one, parts)
    tot = {"lines": 0, "distinct": 0, "nontrivial": 0, "counts": {}}
    for r in results:
        ctx.absorb(r)
        for pn in r["panics"]:
            report_panic(ctx, pn, {"step": label})
        s = r["summary"]
        if s is None:
            if not r["panics"]:
                raise ToolError("replay produced no summary: rc=%s %s" % (r["rc"], r["stderr"]))
            continue
        tot["lines"] += s["counts"].get("lines", 0)
        tot["distinct"] += s["distinct"]
        tot["nontrivial"] += s["nontrivial"]
        for k, v in s["counts"].items():
            tot["counts"][k] = tot["counts"].get(k, 0) + v
        for smp in s["samples"][:1]:
            ctx.sample({"direction": "spec->impl", "step": label, **smp})
    for p in parts:
        if os.path.exists(p):
            os.remove(p)
    drift = tot["counts"].get("drift_entries", 0) + tot["counts"].get("drift_pins", 0) + tot["counts"].get("drift_checkers", 0)
    ctx.cov["model_drift"] += drift
    if drift:
        ctx.note("%s: layer S disagrees with the implementation on %d positions (entry list / pin set): model drift, not a violation" % (label, drift))
    ctx.cov["states"] += res["distinct"]
    ctx.cov["transitions"] += res["generated"]
    ctx.cov["evaluations"] += tot["lines"]
    ctx.cov["distinct_nontrivial"] += tot["nontrivial"]
    ctx.cov["traces_validated_against_impl"] += tot["lines"]
    ctx.cov["steps"].append({"step": "replay " + label, "behaviours_replayed": tot["lines"],
                             "distinct_positions": tot["distinct"], "nontrivial_positions": tot["nontrivial"],
                             "counts": tot["counts"], "generate_wall_s": round(t1 - t0, 1), "replay_wall_s": round(time.time() - t1, 1)})
    return tot


def report_panic(ctx, pn, where):
    """a panic of the code under test is a C07 violation; for other checks it is counted"""
    if ctx.prop == "C07":
        ctx.violation("panic", {"panic": pn, **where}, {"kind": "panic", "panic": pn, **where})
    else:
        ctx.other("C07")
        ctx.note("panic in code under test (reported by the C07 check): %s" % json.dumps(pn)[:300])


def walks_and_validate(ctx, label, tags, walks, plies, shards, probe_every, illegal_pct=10, timeout=1500, undo_pct=0):
    """record seeded walks on the implementation and validate each trace shard with TLC"""
    keys = ctx.keys()

    def one(i):
        tr = os.path.join(ctx.work, "%s-%d.ndjson" % (label, i))
        h = ctx.harness(["record-walk", "--seed", ctx.seed, "--shard", i, "--walks", walks, "--plies", plies,
                         "--tags", tags, "--probe-every", probe_every, "--illegal-pct", illegal_pct, "--undo-pct", undo_pct, "--out", tr])
        res = ctx.tlc("ChessTrace", "ChessTrace.cfg", env={"VERIF_TRACE": tr, "VERIF_KEYS": keys},
                      workers=1, deque=True, timeout=timeout, name="%s-%d" % (label, i))
        return i, tr, h, res

    out = ctx.pmap(one, list(range(shards)), jobs=min(shards, max(1, NCPU - 2)))
    events = 0
    for i, tr, h, res in out:
        ctx.absorb(h)
        for pn in h["panics"]:
            report_panic(ctx, pn, {"step": label, "shard": i})
        done = list(ctx.tlc_lines(res["out_path"], "DONE"))
        hard = ctx.tlc_hard_errors(res)
        if not done:
            raise ToolError("trace validation did not finish (%s shard %d): %s" % (label, i, hard[:3]))
        d = done[0]
        if d["lines"] != d["consumed"]:
            # a line the specification could not consume is a framework error, not a verdict
            raise ToolError("trace shard %d: %d lines but %d consumed" % (i, d["lines"], d["consumed"]))
        events += d["lines"]
        bads = list(ctx.tlc_lines(res["out_path"], "BAD"))
        if bads:
            lines = open(tr).read().split("\n")
        kept = None
        for b in bads:
            if b["prop"] == "DRIFT":
                ctx.cov["model_drift"] += 1
                continue
            if b["prop"] != ctx.prop:
                ctx.other(b["prop"])
                continue
            if kept is None:
                kept = os.path.join(REPLAYS, "%s-%s-%d-trace-%s-%d.ndjson" % (ctx.prop, ctx.tier, ctx.seed, label, i))
                shutil.copy(tr, kept)
            ev = json.loads(lines[b["line"] - 1])
            obs = ev.get("obs", {})
            ctx.violation(b["check"], {"trace_line": b["line"], "event": ev.get("ev"), "mv": ev.get("mv"),
                                       "fen": obs.get("fen"), "legals": obs.get("legals"), "st": obs.get("st")},
                          {"kind": "trace", "record_args": [str(a) for a in h["args"]], "trace": kept, "line": b["line"], "module": "ChessTrace"})
        ctx.cov["states"] += res["distinct"]
        ctx.cov["transitions"] += res["generated"]
        if i == 0:
            first = json.loads(open(tr).readline())
            ctx.sample({"direction": "impl->spec", "step": label, "first_event": {"ev": first["ev"], "fen_in": first.get("fen_in")},
                        "events_in_shard": d["lines"]})
        os.remove(tr)
        os.remove(res["out_path"])
    ctx.cov["traces_validated_against_impl"] += shards
    ctx.cov["evaluations"] += events
    ctx.cov["steps"].append({"step": "walks " + label, "shards": shards, "events_validated": events})
    return events


def write_sel(ctx, indices, name):
    p = os.path.join(ctx.work, name + ".sel.json")
    json.dump(indices, open(p, "w"))
    return p


RULE = ("spec->impl: every distinct position TLC reaches from the listed roots/families to the stated depth "
        "(one behaviour each, replayed from the root through move_new/move_mut/move_into); impl->spec: one "
        "event per public call of seeded walks, validated by ChessTrace.tla. A position is non-trivial when "
        "its legal set contains an en-passant capture, a castling move or a promotion, or the mover is in "
        "check; distinct = distinct FEN text.")


def board_pipeline(ctx, bfs, walks, families=(), sims=()):
    """bfs: list of (label, indices, depth); walks: list of dict(label,tags,walks,plies,shards);
    families: list of (label, cfg, env); sims: list of (label, indices, depth, traces per worker) -
    TLC simulation: random deep behaviours of the game state machine; TLC evaluates the emitting
    invariant on every successor it generates along the way, so each behaviour contributes all the
    positions one move off its path"""
    ctx.cov["rule"] = RULE
    pe = PROBE_EVERY[ctx.tier]
    for label, indices, depth in bfs:
        sel = write_sel(ctx, indices, label)
        emit_and_replay(ctx, "ChessMC", "ChessMC_emitsys.cfg" if ctx.prop in ("C01", "C03") else "ChessMC_emit.cfg",
                        {"VERIF_DEPTH": depth, "VERIF_ROOTSEL": sel}, label, pe)
    for label, cfg, env in families:
        emit_and_replay(ctx, "Families", cfg, env, label, pe)
    for label, indices, depth, num in sims:
        sel = write_sel(ctx, indices, label)
        emit_and_replay(ctx, "ChessMC", "ChessMC_emit.cfg", {"VERIF_DEPTH": depth, "VERIF_ROOTSEL": sel}, label, pe * 4,
                        timeout=3000, simulate="num=%d" % num, extra=["-depth", str(depth + 2), "-seed", str(ctx.seed)])
    for w in walks:
        walks_and_validate(ctx, w["label"], w["tags"], w["walks"], w["plies"], w["shards"], pe * 2,
                           illegal_pct=w.get("illegal_pct", 10), undo_pct=w.get("undo_pct", 0))
    ctx.assumptions += [
        "TLC 1.8 evaluates the specification correctly",
        "layer R (spec/Chess.tla) is the rules of chess: checked against published perft path counts and colour symmetry by spec/SelfTest.tla",
        "the projection code in harness/src/proj.rs and the cfg-guarded read-only hooks report the implementation's state faithfully",
        "spec/roots.json is the translation of spec/roots.txt by lib/mkroots.py (bound at run time: the parsed root must project to the same record)",
    ]


def sys_model_check(ctx, indices, depth, label="layer-S"):
    """layer S (MoveGenSys: the generator and the incremental check/pin bookkeeping as implemented)
    against layer R on the game state machine: GeneratorExact, EntriesDisjoint, Capacity, CachesExact,
    IncrementalExact.  A violation here is a statement about the modelled algorithm; the model is tied
    to the code by the entry-list / cache conformance (drift) of the replay steps."""
    sel = write_sel(ctx, indices, label)
    res = ctx.tlc("MoveGenSysMC", "MoveGenSysMC.cfg", env={"VERIF_DEPTH": depth, "VERIF_ROOTSEL": sel}, workers=NCPU,
                  timeout=3000, name=label)
    if res["violated"]:
        ctx.violation("layer-S-model: " + res["violated"][0][:120], {"tlc": res["violated"][:3]},
                      {"kind": "tlc", "module": "MoveGenSysMC", "cfg": "MoveGenSysMC.cfg"})
    elif res["errors"]:
        raise ToolError("MoveGenSysMC failed: %s" % res["errors"][:3])
    ctx.cov["states"] += res["distinct"]
    ctx.cov["transitions"] += res["generated"]
    ctx.cov["steps"].append({"step": "layer S model check (MoveGenSys vs Chess)", "distinct": res["distinct"], "depth": depth})
    os.remove(res["out_path"])


def games_and_validate(ctx, shards, events, tags="std,perft,tiny,promo,clock", kmax=20000):
    """whole games between two plugin instances driven like the tournament loop of chess-cli (engine
    proposals under a counting limit), validated by BotTrace.tla: the positions are those of real engine
    play (natural mates, promotions, endgames, repetitions); per ply the loop's verdict from
    Board::state() must be the verdict of layer R.  Checks of other properties are counted, not reported."""
    keys = ctx.keys()

    def one(i):
        tr = os.path.join(ctx.work, "games-%d.ndjson" % i)
        h = ctx.harness(["record-bot", "--mode", "match", "--tags", tags, "--seed", ctx.seed, "--shard", 100 + i, "--events", events,
                         "--kmax", kmax, "--out", tr], timeout=3000)
        r = ctx.tlc("BotTrace", "BotTrace.cfg", env={"VERIF_TRACE": tr, "VERIF_KEYS": keys}, workers=1, deque=True, timeout=3000, name="games-%d" % i)
        return i, tr, h, r

    total = games = ends = 0
    for i, tr, h, r in ctx.pmap(one, list(range(shards))):
        for pn in h["panics"]:
            report_panic(ctx, pn, {"step": "games", "shard": i})
        done = list(ctx.tlc_lines(r["out_path"], "DONE"))
        if not done or done[0]["lines"] != done[0]["consumed"]:
            raise ToolError("game trace validation failed (shard %d): %s" % (i, r["errors"][:3]))
        total += done[0]["lines"]
        if h["summary"]:
            games += h["summary"]["counts"].get("games", 0)
            ends += h["summary"]["counts"].get("mates", 0) + h["summary"]["counts"].get("draws", 0)
        bads = list(ctx.tlc_lines(r["out_path"], "BAD"))
        kept = None
        lines = open(tr).read().split("\n") if bads else []
        n = 0
        for b in bads:
            if b["prop"] != ctx.prop:
                ctx.other(b["prop"])
                continue
            n += 1
            if n > 3:
                continue
            if kept is None:
                kept = os.path.join(REPLAYS, "%s-%s-%d-trace-games-%d.ndjson" % (ctx.prop, ctx.tier, ctx.seed, i))
                shutil.copy(tr, kept)
            ev = json.loads(lines[b["line"] - 1])
            ctx.violation(b["check"], {"trace_line": b["line"], "event": {k: v for k, v in ev.items() if k != "board"}},
                          {"kind": "trace", "record_args": [str(a) for a in h["args"]], "trace": kept, "line": b["line"], "module": "BotTrace"})
        ctx.cov["states"] += r["distinct"]
        ctx.cov["transitions"] += r["generated"]
        os.remove(tr)
        os.remove(r["out_path"])
    ctx.cov["traces_validated_against_impl"] += shards
    ctx.cov["evaluations"] += total
    ctx.cov["distinct_nontrivial"] += ends
    ctx.cov["steps"].append({"step": "engine-played games through two plugin instances", "shards": shards, "games": games,
                             "games_ended_by_mate_or_draw": ends, "events_validated": total})
