"""C08 - slider attack lookup equals ray casting for every square and occupancy
(DESIGN.md section 5, C08).

spec -> impl: for each square TLC enumerates subsets of the square's own ray squares with the
attack set obtained by ray casting (spec/Geometry.tla: RayAttack); the harness looks each one up in
the real magic tables - plain, with the slider's own square occupied, with every off-ray square
occupied and with seeded off-ray noise (independence).  The build has debug assertions on, so an
out-of-range table index traps.  thorough = all 2^k subsets of every square (1,119,744 cases);
quick = all subsets of the inner ray squares of every square plus all subsets for four squares
chosen by the seed."""
import json
import os

from vlib import NCPU, ToolError

LEVEL = "model_checking"


def run(ctx):
    quick = ctx.tier == "quick"
    ctx.cov["rule"] = ("one case per (square, slider kind, subset of that square's ray squares); each case is looked up "
                       "4 times (plain / own square / all off-ray squares / seeded off-ray noise). Distinct = distinct "
                       "(square, kind, subset); non-trivial = all (every subset is a different blocker configuration).")
    plans = []
    if quick:
        plans.append(("inner", list(range(64)), "inner"))
        k = ctx.seed % 16
        plans.append(("full-slice", [k, k + 16, k + 32, k + 48], "all"))
    else:
        for g in range(8):
            plans.append(("full-%d" % g, list(range(g * 8, g * 8 + 8)), "all"))

    def one(plan):
        label, sqs, mode = plan
        # TLC with a few workers, streamed through a file per plan
        res = ctx.tlc("SlidersMC", "SlidersMC.cfg", env={"VERIF_SQS": _jfile(ctx, label, sqs), "VERIF_MODE": mode},
                      workers=4 if not quick else 8, timeout=3000, name="sliders-" + label, xmx="6g")
        if ctx.tlc_hard_errors(res) or res["violated"]:
            raise ToolError("SlidersMC failed (%s): %s" % (label, (res["errors"] + res["violated"])[:3]))
        h = ctx.harness(["replay-sliders", "--seed", ctx.seed], stdin_path=res["out_path"])
        os.remove(res["out_path"])
        return plan, res, h

    total = 0
    for (label, sqs, mode), res, h in ctx.pmap(one, plans, jobs=2 if quick else 4):
        ctx.absorb(h)
        for pn in h["panics"]:
            ctx.violation("panic (table index out of range?)", pn, {"kind": "panic", "panic": pn})
        s = h["summary"] or {"counts": {"lines": 0, "lookups": 0}, "samples": []}
        if s["counts"]["lines"] != res["distinct"]:
            ctx.note("%s: %d states but %d cases replayed" % (label, res["distinct"], s["counts"]["lines"]))
        total += s["counts"]["lines"]
        ctx.cov["states"] += res["distinct"]
        ctx.cov["transitions"] += res["generated"]
        ctx.cov["evaluations"] += s["counts"]["lookups"]
        ctx.cov["steps"].append({"step": "sliders " + label, "mode": mode, "squares": len(sqs), "cases": s["counts"]["lines"],
                                 "lookups": s["counts"]["lookups"], "tlc_wall_s": res["wall_s"]})
        for smp in s["samples"][:1]:
            ctx.sample({"direction": "spec->impl", **smp})
    ctx.cov["distinct_nontrivial"] += total
    ctx.cov["traces_validated_against_impl"] += total
    ctx.cov["exhaustive"] = not quick
    ctx.assumptions += ["TLC evaluates the specification correctly",
                        "the lookup depends only on the occupancy of the square's own rays (the property's reduction); independence from the other squares is sampled (full and seeded noise), not enumerated"]


def _jfile(ctx, label, sqs):
    p = os.path.join(ctx.work, "sqs-%s.json" % label)
    json.dump(sqs, open(p, "w"))
    return p
