"""C04 - the position hash is a pure function of the position; the 794 keys are pairwise
distinct and non-zero (DESIGN.md section 5, C04)."""
from boardchecks import board_pipeline
from vlib import root_indices, ToolError

LEVEL = "model_checking"


def run(ctx):
    # second sentence of the property: TLC evaluates KeysDistinctNonZero on the exported table
    res = ctx.tlc("HashKeys", "HashKeys.cfg", env={"VERIF_KEYS": ctx.keys()}, workers=1, timeout=300)
    keys = list(ctx.tlc_lines(res["out_path"], "KEYS"))
    if not keys:
        raise ToolError("key table check did not run: %s" % res["errors"][:3])
    k = keys[0]
    ctx.cov["key_table"] = k
    ctx.cov["evaluations"] += 794
    if not (k["nonzero"] and k["distinct"] == 794):
        ctx.violation("key-table", k, {"kind": "tlc", "module": "HashKeys", "cfg": "HashKeys.cfg"})
    ctx.sample({"direction": "spec", "step": "HashKeys", "result": k})
    r0 = root_indices(tags=["r0"])
    nb = root_indices(tags=["castle", "ep", "promo"])
    allr = root_indices()
    if ctx.tier == "quick":
        part = [r for k2, r in enumerate(nb) if (k2 + ctx.seed) % 3 == 0]
        bfs = [("tr2", part, 2), ("all1", allr, 1)]
        walks = [dict(label="walk-long", tags="r0,castle", walks=5, plies=100, shards=12, undo_pct=35)]
    else:
        bfs = [("tr3", nb, 3), ("r0-2", r0, 2)]
        walks = [dict(label="walk-long", tags="", walks=20, plies=200, shards=28, undo_pct=35)]
    board_pipeline(ctx, bfs, walks)
    # the incrementally maintained hash against the hash of the position rebuilt from text, in volume
    from vlib import NCPU
    shards = max(1, NCPU - 2)
    res = ctx.pmap(lambda i: ctx.harness(["sweep-twin", "--seed", ctx.seed + 17, "--shard", i, "--walks", 150 if ctx.tier == "quick" else 3000, "--plies", 60]), list(range(shards)))
    npos = 0
    for r in res:
        ctx.absorb(r)
        if r["summary"]:
            npos += r["summary"]["counts"].get("positions", 0)
    ctx.cov["evaluations"] += npos
    ctx.cov["steps"].append({"step": "incremental-vs-rebuilt hash sweep", "positions": npos})
    # layer S: the incremental scheme itself (piece hash toggled square by square while a move is applied, side /
    # en-passant / rights keys folded in when the hash is read) equals the from-scratch hash in every state of the
    # game state machine from the castling-, en-passant- and promotion-rich roots (spec/HashSys.tla)
    import os
    from boardchecks import write_sel
    sel = write_sel(ctx, root_indices(tags=["castle", "ep", "promo", "check"]), "hashsys")
    rs = ctx.tlc("HashSysMC", "HashSysMC.cfg", env={"VERIF_DEPTH": 2 if ctx.tier == "quick" else 3, "VERIF_ROOTSEL": sel, "VERIF_KEYS": ctx.keys()},
                 workers=NCPU, timeout=3000, name="hashsys")
    if rs["violated"]:
        ctx.violation("layer-S-model: " + rs["violated"][0][:120], {"tlc": rs["violated"][:3]}, {"kind": "tlc", "module": "HashSysMC", "cfg": "HashSysMC.cfg"})
    elif rs["errors"]:
        raise ToolError("HashSysMC failed: %s" % rs["errors"][:3])
    ctx.cov["states"] += rs["distinct"]
    ctx.cov["transitions"] += rs["generated"]
    ctx.cov["steps"].append({"step": "layer S model check (incremental hash = from-scratch hash)", "distinct": rs["distinct"]})
    os.remove(rs["out_path"])
