"""C07 - the safe API never violates an unchecked-operation precondition
(DESIGN.md section 5, C07).

Model checking of the preconditions on the abstract position: over BFS from the extremal and crowded
roots TLC checks that the generator's fixed-capacity list can hold every position's entry demand
(EntryDemand <= 18, with roots that reach exactly 18), that both kings are always present and that
validity is inductive (spec/ChessMC.tla: CapacityOK, ValidInductive, NoSelfCheck).
Exploration of the implementation: every scenario of this framework is run in a build with debug
assertions and overflow checks (std's unsafe-precondition checks, arrayvec's push_unchecked assertion
and the crate's own debug_asserts turn a violated precondition into a trap): walks with the three
move operations, iterator operation sequences, the parser and builder on arbitrary inputs,
bitboard iteration, text parsers, the whole opening book, slider lookups, searches for every early
expiry instant, searches given enough polls for more than 65536 passes on O(1) trees, 1100-ply
reversible manoeuvres through the plugin with searches on top of the long history, and every board
operation and a search on positions whose move counters are at the top of their 16-bit range (set up
through the builder) or whose repetition history exceeds an 8-bit count.  Any panic or abnormal exit is a violation.
Rust-level undefined behaviour that does not trap cannot be observed by this technique."""
import json
import os

from boardchecks import write_sel, emit_and_replay
from vlib import NCPU, ToolError, root_indices

LEVEL = "exploration"


def run(ctx):
    quick = ctx.tier == "quick"
    ctx.cov["rule"] = ("one evaluation per safe-API call sequence executed in the assertion-enabled build (events, parses, "
                       "searches, plugin calls ... as counted by each driver); non-trivial = scenarios of the extremal kinds "
                       "(18-entry positions, >65536 passes, >255 repetitions, mutated inputs) plus positions reached.")
    # 1. preconditions on the model
    idx = root_indices(tags=["crowd", "cap18"])
    sel = write_sel(ctx, idx, "extremal")
    res = ctx.tlc("ChessMC", "ChessMC_self.cfg", env={"VERIF_DEPTH": 2 if quick else 3, "VERIF_ROOTSEL": sel, "VERIF_KEYS": ctx.keys()},
                  workers=NCPU, timeout=3000, name="preconditions")
    if res["violated"]:
        ctx.violation("precondition-invariant-on-the-model", {"tlc": res["violated"][:3]}, {"kind": "tlc", "module": "ChessMC", "cfg": "ChessMC_self.cfg"})
    elif res["errors"]:
        raise ToolError("precondition model check failed: %s" % res["errors"][:3])
    ctx.cov["states"] = res["distinct"]
    ctx.cov["transitions"] = res["generated"]
    ctx.cov["steps"].append({"step": "model: EntryDemand<=18, kings present, validity inductive", "distinct": res["distinct"]})
    os.remove(res["out_path"])
    # 2. the extremal positions replayed into the implementation (and their neighbours)
    emit_and_replay(ctx, "ChessMC", "ChessMC_emit.cfg", {"VERIF_DEPTH": 1 if quick else 2, "VERIF_ROOTSEL": sel}, "extremal", 10)
    # 3. scenario sweep: (name, args); each runs in its own process, a panic or abnormal exit is the finding
    w = ctx.work
    s = ctx.seed + 1000
    q = quick
    scen = [
        ("walks", ["record-walk", "--seed", s, "--walks", 40 if q else 400, "--plies", 80, "--probe-every", 400, "--illegal-pct", 20, "--out", w + "/a.ndjson"]),
        ("walks-crowd", ["record-walk", "--seed", s, "--tags", "crowd,cap18,promo", "--walks", 40 if q else 400, "--plies", 40, "--probe-every", 400, "--out", w + "/b.ndjson"]),
        ("iterators", ["record-iter", "--mode", "random", "--tags", "", "--seed", s, "--events", 60000 if q else 600000, "--out", w + "/c.ndjson"]),
        ("iterators-masked", ["record-iter", "--mode", "masked", "--tags", "crowd,cap18,ep,promo", "--seed", s, "--events", 40000 if q else 400000, "--out", w + "/d.ndjson"]),
        # inside the two known-finding classes of C10 (mutation while a promotion destination is partially yielded,
        # remove_move of a promotion) wrong answers are known; a panic there is not
        ("iterators-known-class", ["record-iter", "--mode", "random", "--no-avoid", "--tags", "promo", "--seed", s, "--events", 60000 if q else 600000, "--out", w + "/d2.ndjson"]),
        ("parser-builder", ["record-fen", "--seed", s, "--events", 0, "--random", 100000 if q else 2000000, "--builds", 100000 if q else 2000000, "--out", w + "/e.ndjson"]),
        ("bitboards", ["record-bb", "--seed", s, "--cases", 2000 if q else 50000, "--out", w + "/f.ndjson"]),
        ("text", ["record-text", "--seed", s, "--alphabet", 8, "--random", 20000 if q else 500000, "--out", w + "/g.ndjson"]),
        ("book", ["book-export", "--out", w + "/h.json", "--walk", w + "/i.json"]),
        ("search-early-expiry", ["record-search", "--mode", "allk", "--tags", "tiny,perft,cap18", "--seed", s, "--events", 60000 if q else 600000, "--kmax", 300, "--out", w + "/j.ndjson"]),
        ("search-many-passes", ["stress-search", "--tags", "tiny", "--polls", 70000 if q else 200000, "--out", w + "/k.ndjson"]),
        ("extremal-counters", ["stress-clocks", "--seed", s, "--tags", "tiny,std,clock,promo" if q else "tiny,std,clock,promo,perft,castle,ep"]),
        ("plugin-long-shuffle", ["record-bot", "--mode", "long", "--tags", "std", "--seed", s, "--events", 1200, "--out", w + "/l.ndjson"]),
        ("plugin-shuffle", ["record-bot", "--mode", "shuffle", "--seed", s, "--events", 4000 if q else 60000, "--out", w + "/m.ndjson"]),
    ]

    def one(sc):
        name, args = sc
        h = ctx.harness(args, timeout=3000)
        return name, args, h

    done = 0
    for name, args, h in ctx.pmap(one, scen, jobs=min(len(scen), NCPU - 2)):
        for pn in h["panics"]:
            ctx.violation("panic in scenario " + name, {"panic": pn}, {"kind": "harness", "args": [str(a) for a in args], "panic": pn})
        for m in h["mismatches"]:
            ctx.other(m["prop"])
        c = (h["summary"] or {"counts": {}})["counts"]
        n = sum(v for k, v in c.items() if isinstance(v, int) and k in ("events", "strings_tried", "builds_tried", "edges", "calls", "inputs_tried", "runs", "passes"))
        ctx.cov["evaluations"] += n
        ctx.cov["steps"].append({"step": "scenario " + name, "counts": c, "panics": len(h["panics"])})
        done += 1
    ctx.cov["distinct_nontrivial"] += done
    ctx.sample({"scenario": "search-many-passes", "what": "Engine::search on positions without legal moves / at half-move clock 99 with a limit of 70000 polls (more than 65536 deepening passes)"})
    ctx.sample({"scenario": "extremal-counters", "what": "builder positions with half-move / full-move counters 65534, 65535: six plies through move_new / move_mut / move_into, every legal move applied once, status, text, hash, and a search; searches on a history that holds the root and four successors 300 times each"})
    ctx.sample({"scenario": "plugin-long-shuffle", "what": "g1f3 g8f6 f3g1 f6g8 repeated for 1100 plies through the cdylib (start position occurs 275 times)"})
    ctx.assumptions += ["a violated precondition traps in a build with debug assertions and overflow checks; undefined behaviour that does not trap is not observable here",
                        "TLC evaluates the specification correctly (model part)"]
