"""C10 - the move iterator honours its size and filtering contracts (DESIGN.md section 5, C10).

impl -> spec: the harness drives real MoveGen instances through operation sequences and records
one event per public call; TLC validates every event against spec/MoveIter.tla (the contract: a
set of remaining moves and a mask) via spec/MoveIterTrace.tla."""
import json
import os
import shutil

from vlib import REPLAYS, VERIF, NCPU, ToolError, known_findings

LEVEL = "model_checking"


def validate(ctx, trace, name):
    res = ctx.tlc("MoveIterTrace", "MoveIterTrace.cfg", env={"VERIF_TRACE": trace}, workers=1, deque=True,
                  timeout=1500, name=name)
    done = list(ctx.tlc_lines(res["out_path"], "DONE"))
    if not done:
        raise ToolError("iterator trace validation did not finish (%s): %s" % (name, res["errors"][:3]))
    if done[0]["lines"] != done[0]["consumed"]:
        raise ToolError("iterator trace %s: %d lines, %d consumed" % (name, done[0]["lines"], done[0]["consumed"]))
    bads = list(ctx.tlc_lines(res["out_path"], "BAD"))
    os.remove(res["out_path"])
    ctx.cov["states"] += res["distinct"]
    ctx.cov["transitions"] += res["generated"]
    return done[0]["lines"], bads


def history(lines, lineno):
    """the events of the instance (and the instances it was cloned from) up to the failing line"""
    ev = json.loads(lines[lineno - 1])
    idn = ev["id"]
    hist = []
    j = lineno - 1
    while j >= 0:
        e = json.loads(lines[j])
        if e.get("id") == idn or e.get("new") == idn:
            hist.append(e)
            if e["ev"] == "it_new":
                break
            if e["ev"] == "it_clone" and e.get("new") == idn:
                idn = e["id"]
        j -= 1
    return list(reversed(hist))


def run(ctx):
    ctx.cov["rule"] = ("one event per public MoveGen call (legals, legals_masked, next, len, is_empty, size_hint, "
                       "set_mask, remove, remove_move, clone, count) of generated operation sequences on positions "
                       "rich in promotions, en passant and castling; every event validated by TLC against the "
                       "set-and-mask contract. Non-trivial = a sequence with at least one mutating operation "
                       "(every generated sequence has one or is a plain drain); distinct = distinct sequences.")
    # 1. the recorded known findings: replay their exact witnesses
    for k in known_findings("C10"):
        if k["kind"] != "known":
            continue
        wit = os.path.join(VERIF, k["fields"]["witness"])
        tr = os.path.join(ctx.work, "known-%s.ndjson" % k["fields"]["id"])
        ctx.harness(["replay-iter", "--case", wit, "--out", tr])
        n, bads = validate(ctx, tr, "known-" + k["fields"]["id"])
        if bads:
            ctx.known("id=%s %s" % (k["fields"]["id"], k["text"]))
        else:
            ctx.note("known finding %s no longer reproduces (stale entry in KNOWN_FINDINGS.txt)" % k["fields"]["id"])
    # 1b. layer S: the implementation-shaped iterator model refines the contract for every operation
    # sequence up to the bound on a small universe, outside the two known-finding classes
    # (spec/MoveIterSysMC.tla); inside them TLC finds the known findings as counterexamples
    r = ctx.tlc("MoveIterSysMC", "MoveIterSysMC.cfg", workers=8, timeout=1200, name="sys-refines-contract")
    if r["violated"] or r["errors"]:
        ctx.violation("layer-S-model-does-not-refine-the-contract", {"tlc": (r["violated"] + r["errors"])[:3]},
                      {"kind": "tlc", "module": "MoveIterSysMC", "cfg": "MoveIterSysMC.cfg"})
    ctx.cov["states"] += r["distinct"]
    ctx.cov["transitions"] += r["generated"]
    os.remove(r["out_path"])
    r2 = ctx.tlc("MoveIterSysMC", "MoveIterSysMC_unrestricted.cfg", workers=2, timeout=600, name="sys-known-class")
    ctx.cov["steps"].append({"step": "layer S refinement", "restricted_states": r["distinct"],
                             "unrestricted_counterexample_found": bool(r2["violated"])})
    os.remove(r2["out_path"])
    # 1c. conformance of layer S to the code (drift, not a verdict): the model is stepped with the
    # recorded calls and compared with the implementation's own entry list after every call
    trs = os.path.join(ctx.work, "sys.ndjson")
    ctx.harness(["record-iter", "--mode", "systematic", "--sys", "--tags", "promo,ep", "--seed", ctx.seed, "--events", 8000, "--out", trs])
    r3 = ctx.tlc("MoveIterSysTrace", "MoveIterSysTrace.cfg", env={"VERIF_TRACE": trs}, workers=1, deque=True, timeout=1200, name="sys-conformance")
    drift = len(list(ctx.tlc_lines(r3["out_path"], "BAD")))
    done3 = list(ctx.tlc_lines(r3["out_path"], "DONE"))
    ctx.cov["model_drift"] += drift
    ctx.cov["steps"].append({"step": "layer S conformance", "events": done3[0]["lines"] if done3 else 0, "drift": drift})
    if drift:
        ctx.note("layer S (MoveIterSys) no longer matches the implementation's entry list (%d events): model drift, not a violation" % drift)
    os.remove(trs)
    os.remove(r3["out_path"])
    # 2. generated histories
    quick = ctx.tier == "quick"
    plans = [
        ("systematic", "promo,ep", 6 if quick else 14, 9000 if quick else 150000, 3 if quick else 5),
        ("systematic", "castle,check,crowd", 2 if quick else 6, 6000 if quick else 40000, 3 if quick else 4),
        ("masked", "promo,ep,castle", 2 if quick else 14, 6000 if quick else 100000, 4),
        ("engine", "", 1 if quick else 4, 6000 if quick else 40000, 2),
        ("random", "", 3 if quick else 14, 8000 if quick else 150000, 6),
    ]
    jobs = []
    for mode, tags, shards, events, depth in plans:
        for s in range(shards):
            jobs.append((mode, tags, shards, s, events, depth))

    def one(job):
        mode, tags, shards, s, events, depth = job
        name = "%s-%s-%d" % (mode, tags.replace(",", "_") or "all", s)
        tr = os.path.join(ctx.work, name + ".ndjson")
        h = ctx.harness(["record-iter", "--mode", mode, "--tags", tags, "--shards", shards, "--shard", s,
                         "--events", events, "--depth", depth, "--seed", ctx.seed, "--out", tr])
        n, bads = validate(ctx, tr, name)
        return name, tr, h, n, bads

    total = 0
    seqs = 0
    for name, tr, h, n, bads in ctx.pmap(one, jobs, jobs=max(1, NCPU - 2)):
        total += n
        s = h["summary"] or {"counts": {}}
        seqs += s["counts"].get("sequences", 0)
        for pn in h["panics"]:
            ctx.other("C07")
            ctx.note("panic while driving the iterator: %s" % json.dumps(pn)[:300])
        if bads:
            lines = open(tr).read().split("\n")
            kept = os.path.join(REPLAYS, "C10-%s-%d-trace-%s.ndjson" % (ctx.tier, ctx.seed, name))
            shutil.copy(tr, kept)
            seen = set()
            for b in bads:
                hist = history(lines, b["line"])
                key = (b["check"], hist[0].get("fen"))
                if key in seen:
                    continue
                seen.add(key)
                short = [{k: (v if not (isinstance(v, list) and len(v) > 12) else "%d items" % len(v)) for k, v in e.items()} for e in hist[-10:]]
                ctx.violation(b["check"], {"trace_line": b["line"], "fen": hist[0].get("fen"), "history_tail": short},
                              {"kind": "trace", "record_args": [str(a) for a in h["args"]], "trace": kept, "line": b["line"], "module": "MoveIterTrace"})
        if len(ctx.cov["samples"]) < 3:
            first = [json.loads(x) for x in open(tr).read().split("\n")[:6] if x]
            ctx.sample({"direction": "impl->spec", "scenario": name,
                        "first_events": [{k: (v if not isinstance(v, list) else "%d items" % len(v)) for k, v in e.items()} for e in first]})
        os.remove(tr)
    ctx.cov["evaluations"] += total
    ctx.cov["distinct_nontrivial"] += seqs
    ctx.cov["traces_validated_against_impl"] += len(jobs)
    ctx.cov["steps"].append({"step": "iterator traces", "shards": len(jobs), "events_validated": total, "sequences": seqs})
    ctx.assumptions += [
        "TLC evaluates the specification correctly",
        "the initial move set of an instance is what a fresh full iteration of the same board yields (so C10 measures the iterator, not C01)",
        "the boolean returned by remove_move and the effect of widening the mask of a generation-restricted iterator are not specified by the property and are not checked",
        "histories inside the two recorded known-finding classes (KNOWN_FINDINGS.txt) are not generated; their witnesses are replayed instead",
    ]
