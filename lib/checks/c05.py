"""C05 - FEN text and board are inverse representations; the three constructors agree
(DESIGN.md section 5, C05)."""
from boardchecks import board_pipeline
from vlib import root_indices

LEVEL = "model_checking"


def run(ctx):
    txt = root_indices(tags=["ep", "clock", "castle"])
    allr = root_indices()
    if ctx.tier == "quick":
        part = [r for k, r in enumerate(txt) if (k + ctx.seed) % 2 == 0]
        bfs = [("txt2", part, 2), ("all1", allr, 1)]
        walks = [dict(label="walk", tags="ep,clock,castle,std", walks=12, plies=40, shards=12)]
    else:
        bfs = [("txt3", txt, 3), ("all2", allr, 2)]
        walks = [dict(label="walk", tags="", walks=40, plies=80, shards=28)]
    board_pipeline(ctx, bfs, walks)
    # writer / parser / builder against the moved board, in volume (equalities between observations of the
    # implementation; the specification's text is the reference in the steps above)
    from vlib import NCPU
    shards = max(1, NCPU - 2)
    sw = ctx.pmap(lambda i: ctx.harness(["sweep-twin", "--seed", ctx.seed + 29, "--shard", i, "--walks", 150 if ctx.tier == "quick" else 3000, "--plies", 60]), list(range(shards)))
    npos = 0
    for r in sw:
        ctx.absorb(r)
        if r["summary"]:
            npos += r["summary"]["counts"].get("positions", 0)
    ctx.cov["evaluations"] += npos
    ctx.cov["steps"].append({"step": "text / builder round-trip sweep", "positions": npos})
    # clock sweep: every value 0..9999 in both clock fields (thorough), a seeded quarter in quick
    import os
    from vlib import ToolError
    stride = 4 if ctx.tier == "quick" else 1
    res = ctx.tlc("ClockSweep", "ClockSweep.cfg", env={"VERIF_STRIDE": stride, "VERIF_PHASE": ctx.seed % stride}, workers=4, timeout=900, name="clocks")
    if ctx.tlc_hard_errors(res) or res["violated"]:
        raise ToolError("ClockSweep failed: %s" % (res["errors"] + res["violated"])[:3])
    h = ctx.harness(["replay-clocks"], stdin_path=res["out_path"])
    ctx.absorb(h)
    n = (h["summary"] or {"counts": {"lines": 0}})["counts"]["lines"]
    ctx.cov["states"] += res["distinct"]
    ctx.cov["transitions"] += res["generated"]
    ctx.cov["evaluations"] += n
    ctx.cov["traces_validated_against_impl"] += n
    ctx.cov["steps"].append({"step": "clock sweep", "values": n, "exhaustive": stride == 1})
    os.remove(res["out_path"])
