"""C05 - FEN text and board are inverse representations; the three constructors agree
(DESIGN.md section 5, C05)."""
from boardchecks import board_pipeline
from vlib import root_indices

LEVEL = "model_checking"


def run(ctx):
    txt = root_indices(tags=["ep", "clock", "castle"])
    allr = root_indices()
    if ctx.tier == "quick":
        part = [r for k, r in enumerate(txt) if (k + ctx.seed) % 2 == 0]
        bfs = [("txt2", part, 2), ("all1", allr, 1)]
        walks = [dict(label="walk", tags="ep,clock,castle,std", walks=12, plies=40, shards=12)]
    else:
        bfs = [("txt3", txt, 3), ("all2", allr, 2)]
        walks = [dict(label="walk", tags="", walks=40, plies=80, shards=28)]
    board_pipeline(ctx, bfs, walks)
