"""C16 - stable-ABI move and score encodings are lossless (DESIGN.md section 5, C16).

The encodings are specified in spec/Abi.tla (code points of the repr(u8) mirrors; TLC ASSUMEs that
decoding inverts encoding on all 20480 moves + 'no move' and that the encodings are pairwise
distinct).  The mirror types are opaque, so the observable is the round trip: the harness converts
every move through StableChessMove and through EvaluatedMove, 'no move' with every kind of score,
all 2 x 65536 mate distances (thorough; edges + a seeded stride in quick) and numeric scores at
the extremes, around zero and seeded; TLC validates every recorded result (spec/Abi.tla, Block).
This is enumeration with the specification as domain and oracle - the thinnest use of the
technique in this framework."""
import os
import shutil

from vlib import ToolError, REPLAYS

LEVEL = "model_checking"


def run(ctx):
    quick = ctx.tier == "quick"
    ctx.cov["rule"] = "one conversion per value; all are distinct; moves exhaustive, mate distances exhaustive in thorough"
    tr = os.path.join(ctx.work, "abi.ndjson")
    h = ctx.harness(["record-abi", "--seed", ctx.seed, "--mate-stride", 4 if quick else 1, "--random", 2000 if quick else 50000, "--out", tr])
    for pn in h["panics"]:
        ctx.violation("panic", pn, {"kind": "panic", "panic": pn})
    if h["summary"] is None:
        return
    r = ctx.tlc("Abi", "Abi.cfg", env={"VERIF_TRACE": tr}, workers=1, deque=True, timeout=1500, name="abi", xmx="4g")
    done = list(ctx.tlc_lines(r["out_path"], "DONE"))
    if not done or done[0]["lines"] != done[0]["consumed"]:
        raise ToolError("abi trace validation failed: %s" % r["errors"][:3])
    bads = list(ctx.tlc_lines(r["out_path"], "BAD"))
    if bads:
        kept = os.path.join(REPLAYS, "C16-%s-%d-trace.ndjson" % (ctx.tier, ctx.seed))
        shutil.copy(tr, kept)
        seen = set()
        for b in bads:
            if b["check"] in seen:
                continue
            seen.add(b["check"])
            ctx.violation(b["check"], {"trace_line": b["line"]}, {"kind": "trace", "record_args": [str(a) for a in h["args"]], "trace": kept, "line": b["line"], "module": "Abi"})
    n = h["summary"]["counts"]["conversions"]
    ctx.cov["evaluations"] += n
    ctx.cov["distinct_nontrivial"] += n
    ctx.cov["states"] += r["distinct"]
    ctx.cov["transitions"] += r["generated"]
    ctx.cov["traces_validated_against_impl"] += 1
    ctx.cov["exhaustive_moves"] = True
    ctx.cov["exhaustive_mate_distances"] = not quick
    ctx.sample({"direction": "impl->spec", "conversions": n, "blocks": done[0]["lines"]})
    ctx.cov["steps"].append({"step": "round trips", "conversions": n})
    os.remove(tr)
    ctx.assumptions += ["TLC evaluates the specification correctly", "numeric scores are sampled (extremes, -300..300, seeded), not enumerated"]
