"""C18 - bitboards behave as sets of squares (DESIGN.md section 5, C18).

spec -> impl: TLC enumerates the family (empty, full, all one- and two-square boards, files, ranks;
pairs of {empty, full, singles, files, ranks}) with the result of every operation computed on plain
sets (spec/BitSet.tla); the harness replays each case on the real BitBoard.
impl -> spec: seeded random boards and pairs are run through the real operations and TLC
recomputes every result (spec/BitSetTrace.tla)."""
import os

from vlib import NCPU, ToolError, REPLAYS
import shutil

LEVEL = "model_checking"


def run(ctx):
    quick = ctx.tier == "quick"
    ctx.cov["rule"] = ("spec->impl: one case per board of the family (unary operations incl. iteration and nth(n) for "
                       "every n up to count+1) and per ordered pair (binary operations); impl->spec: seeded random "
                       "boards of five densities. Non-trivial = non-empty board; distinct = distinct board (pair).")
    slices = 4 if quick else 1
    sl = ctx.seed % slices
    res = ctx.tlc("BitSetMC", "BitSetMC.cfg", env={"VERIF_SLICE": sl, "VERIF_SLICES": slices}, workers=NCPU,
                  timeout=1200, name="bitset-emit")
    if ctx.tlc_hard_errors(res) or res["violated"]:
        raise ToolError("BitSetMC failed: %s" % (res["errors"] + res["violated"])[:3])
    jobs = max(1, NCPU - 2)
    parts_u, nu = ctx.split_lines(res["out_path"], "BBU", jobs)
    parts_b, nb = ctx.split_lines(res["out_path"], "BBB", jobs)
    os.remove(res["out_path"])
    results = ctx.pmap(lambda p: ctx.harness(["replay-bb"], stdin_path=p), parts_u + parts_b)
    lines = 0
    for r in results:
        ctx.absorb(r)
        for pn in r["panics"]:
            ctx.violation("panic", pn, {"kind": "panic", "panic": pn})
        if r["summary"]:
            lines += r["summary"]["counts"]["lines"]
            ctx.cov["distinct_nontrivial"] += r["summary"]["nontrivial"]
            for s in r["summary"]["samples"][:1]:
                ctx.sample({"direction": "spec->impl", **s})
    for p in parts_u + parts_b:
        os.remove(p)
    if lines != nu + nb or nu + nb != res["distinct"]:
        ctx.note("TLC printed %d+%d cases, %d distinct states, %d replayed" % (nu, nb, res["distinct"], lines))
    ctx.cov["states"] += res["distinct"]
    ctx.cov["transitions"] += res["generated"]
    ctx.cov["evaluations"] += lines
    ctx.cov["traces_validated_against_impl"] += lines
    ctx.cov["exhaustive_family"] = (slices == 1)
    ctx.cov["steps"].append({"step": "family replay", "unary_cases": nu, "binary_cases": nb, "slice": "%d/%d" % (sl, slices)})

    # impl -> spec on seeded random boards
    shards = 6 if quick else 14
    cases = 150 if quick else 1500

    def one(i):
        tr = os.path.join(ctx.work, "bb-%d.ndjson" % i)
        h = ctx.harness(["record-bb", "--seed", ctx.seed, "--shard", i, "--cases", cases, "--out", tr])
        r = ctx.tlc("BitSetTrace", "BitSetTrace.cfg", env={"VERIF_TRACE": tr}, workers=1, deque=True, timeout=1200,
                    name="bb-trace-%d" % i)
        return i, tr, h, r

    total = 0
    for i, tr, h, r in ctx.pmap(one, list(range(shards))):
        for pn in h["panics"]:
            ctx.violation("panic", pn, {"kind": "panic", "panic": pn})
        done = list(ctx.tlc_lines(r["out_path"], "DONE"))
        if not done or done[0]["lines"] != done[0]["consumed"]:
            raise ToolError("bitboard trace validation failed: %s" % r["errors"][:3])
        total += done[0]["lines"]
        bads = list(ctx.tlc_lines(r["out_path"], "BAD"))
        if bads:
            kept = os.path.join(REPLAYS, "C18-%s-%d-trace-%d.ndjson" % (ctx.tier, ctx.seed, i))
            shutil.copy(tr, kept)
            import json
            lines_ = open(tr).read().split("\n")
            seen = set()
            for b in bads:
                if b["check"] in seen:
                    continue
                seen.add(b["check"])
                ev = json.loads(lines_[b["line"] - 1])
                ctx.violation(b["check"], {"trace_line": b["line"], "board": ev.get("bb", ev.get("a")), "nth": ev.get("nth")},
                              {"kind": "trace", "record_args": [str(a) for a in h["args"]], "trace": kept, "line": b["line"], "module": "BitSetTrace"})
        ctx.cov["states"] += r["distinct"]
        ctx.cov["transitions"] += r["generated"]
        os.remove(tr)
        os.remove(r["out_path"])
    ctx.cov["evaluations"] += total
    ctx.cov["distinct_nontrivial"] += total
    ctx.cov["traces_validated_against_impl"] += shards
    ctx.cov["steps"].append({"step": "random boards", "shards": shards, "cases_validated": total})
    ctx.assumptions += ["TLC evaluates the specification correctly",
                        "every operation acts square-wise, so the family plus random boards is representative of all 2^64 boards (stated by the property)",
                        "BitBoard::to_u64/from_u64 are the identity on the underlying word (used to read and build boards)"]
