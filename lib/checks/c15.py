"""C15 - bot plugin: legality gate and threefold detection over any history
(DESIGN.md section 5, C15).

The real cdylib (built from /repo as part of the harness build) is loaded through
chess_api::ChessApiRef::load_from_file and driven through its stable interface: set_board, make_move
with legal moves, illegal triples, undo-moves and quiet shuffles that repeat positions, evaluate
under a counting limit.  Every call is one event validated by spec/BotTrace.tla: applied iff legal
in layer R, reported board = Apply of the specification, threefold flag = 'the new position now has
exactly three occurrences among the positions produced since the board was set' (identity:
placement, side, rights, en-passant file), proposed move legal and board unchanged by evaluate.
A long reversible manoeuvre (1100 plies of knight moves, with searches on top of the long history)
is run in a separate process.  Whole games between two plugin instances, driven like the tournament
loop of chess-cli (bot_fight.rs), are validated by the same module: both instances stay in step and
the loop's verdict (mate and winner, draw, threefold, running) is the verdict of layer R."""
import json
import os
import shutil

from vlib import NCPU, ToolError, REPLAYS

LEVEL = "model_checking"


def run(ctx):
    quick = ctx.tier == "quick"
    ctx.cov["rule"] = ("one event per plugin call; non-trivial = calls that raised the threefold flag (each needs a history "
                       "with two earlier occurrences); distinct = calls (each has its own history).")
    # design level: the table-based implementation (saturating counter, flag = counter == 3) gives the
    # contract's answers for every call sequence on a small position graph with cycles (spec/Bot.tla)
    rm = ctx.tlc("BotMC", "BotMC.cfg", workers=4, timeout=900, name="bot-model")
    if rm["violated"] or rm["errors"]:
        ctx.violation("bot-design-model", {"tlc": (rm["violated"] + rm["errors"])[:3]}, {"kind": "tlc", "module": "BotMC", "cfg": "BotMC.cfg"})
    ctx.cov["states"] += rm["distinct"]
    ctx.cov["transitions"] += rm["generated"]
    ctx.cov["steps"].append({"step": "design model (table = history count, illegal = stutter)", "distinct": rm["distinct"]})
    os.remove(rm["out_path"])
    # the same design for histories of any length: the saturating table is the capped true count and the
    # flag is exact (TLAPS, spec/BotProofs.tla; needs CounterMax > 3, which u8::MAX satisfies)
    import re, subprocess
    from vlib import SPEC
    d = os.path.join(ctx.work, "tlaps")
    os.makedirs(d)
    shutil.copy(os.path.join(SPEC, "BotProofs.tla"), d)
    p = subprocess.run(["timeout", "900", "tlapm", "--threads", "4", "BotProofs.tla"], cwd=d, stdout=subprocess.PIPE, stderr=subprocess.STDOUT, text=True)
    m = re.search(r"All (\d+) obligations? proved", p.stdout)
    failed = re.search(r"(\d+)/(\d+) obligations? failed", p.stdout)
    if m:
        ctx.cov["steps"].append({"step": "tlapm BotProofs.tla", "obligations": int(m.group(1)), "discharged": int(m.group(1))})
    elif failed:
        ctx.violation("bot-design-proof", {"failed": failed.group(0), "tail": p.stdout[-600:]}, {"kind": "tlapm", "module": "BotProofs"})
    else:
        raise ToolError("tlapm did not report a result: %s" % p.stdout[-1200:])
    keys = ctx.keys()
    jobs = [("shuffle", "", i, 2500 if quick else 40000) for i in range(10 if quick else 42)]
    jobs.append(("long", "std", 0, 1200))
    # whole games between two plugin instances driven like the tournament loop of chess-cli (the engine
    # proposes under a counting limit, the move goes to both instances, the loop's verdict is recorded)
    jobs += [("match", "std,perft,tiny,promo,clock", i, 3000 if quick else 20000) for i in range(4 if quick else 12)]

    def one(job):
        mode, tags, i, ev = job
        name = "bot-%s-%d" % (mode, i)
        tr = os.path.join(ctx.work, name + ".ndjson")
        h = ctx.harness(["record-bot", "--mode", mode, "--tags", tags, "--seed", ctx.seed, "--shard", i, "--events", ev, "--kmax", 20000, "--out", tr], timeout=3000)
        r = ctx.tlc("BotTrace", "BotTrace.cfg", env={"VERIF_TRACE": tr, "VERIF_KEYS": keys}, workers=1, deque=True, timeout=3000, name=name)
        return job, name, tr, h, r

    calls = flags = total = 0
    for job, name, tr, h, r in ctx.pmap(one, jobs):
        for pn in h["panics"]:
            # a crash of the plugin is a C07 finding; it is also a C15 violation when the call that did
            # not return is make_move or set_board (the move was neither applied nor reported invalid)
            pend = ""
            if os.path.exists(tr + ".pending"):
                pend = open(tr + ".pending").read()
            if " make_move " in pend or " set_board " in pend:
                kept = os.path.join(REPLAYS, "C15-%s-%d-trace-%s.ndjson" % (ctx.tier, ctx.seed, name))
                shutil.copy(tr, kept)
                ctx.violation("call-did-not-return (the plugin aborted the process)", {"call": pend[:300], "panic": pn},
                              {"kind": "harness", "args": [str(a) for a in h["args"]], "trace": kept, "pending": pend[:300]})
            else:
                ctx.other("C07")
                ctx.note("plugin run %s ended abnormally in %s: %s" % (name, pend[:120], json.dumps(pn)[:300]))
        done = list(ctx.tlc_lines(r["out_path"], "DONE"))
        if not done or done[0]["lines"] != done[0]["consumed"]:
            raise ToolError("bot trace validation failed (%s): %s" % (name, r["errors"][:3]))
        total += done[0]["lines"]
        s = h["summary"] or {"counts": {"calls": done[0]["lines"], "flags_raised": 0}}
        calls += s["counts"]["calls"]
        flags += s["counts"]["flags_raised"]
        bads = list(ctx.tlc_lines(r["out_path"], "BAD"))
        if bads:
            kept = os.path.join(REPLAYS, "C15-%s-%d-trace-%s.ndjson" % (ctx.tier, ctx.seed, name))
            shutil.copy(tr, kept)
            lines = open(tr).read().split("\n")
            seen = {}
            for b in bads:
                seen[b["check"]] = seen.get(b["check"], 0) + 1
                if seen[b["check"]] > 3:
                    continue
                ev = json.loads(lines[b["line"] - 1])
                if b["prop"] != "C15":
                    ctx.other(b["prop"])
                    continue
                ctx.violation(b["check"], {"trace_line": b["line"], "event": {k: v for k, v in ev.items() if k != "board"}},
                              {"kind": "trace", "record_args": [str(a) for a in h["args"]], "trace": kept, "line": b["line"], "module": "BotTrace"})
        ctx.cov["states"] += r["distinct"]
        ctx.cov["transitions"] += r["generated"]
        if len(ctx.cov["samples"]) < 2:
            evs = [json.loads(x) for x in open(tr).read().split("\n")[1:5] if x]
            ctx.sample({"direction": "impl->spec", "scenario": name, "events": [{k: v for k, v in e.items() if k != "board"} for e in evs]})
        os.remove(tr)
        if os.path.exists(tr + ".pending"):
            os.remove(tr + ".pending")
        os.remove(r["out_path"])
    ctx.cov["evaluations"] += calls
    ctx.cov["distinct_nontrivial"] += flags
    ctx.cov["traces_validated_against_impl"] += len(jobs)
    ctx.cov["steps"].append({"step": "plugin traces", "shards": len(jobs), "calls": calls, "threefold_flags_raised": flags, "events_validated": total})
    ctx.assumptions += ["TLC evaluates the specification correctly", "layer R (Legal, Apply)",
                        "the position installed by set_board is not itself counted as an occurrence (the property counts positions produced by moves since the board was set)"]
