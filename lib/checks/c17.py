"""C17 - every opening-book line is a legal game (DESIGN.md section 5, C17).

The trie is exported from the implementation through its public iterator; TLC model-checks the
whole graph (spec/Book.tla): from the standard start every edge must be a legal promotion-free move
of layer R in the position its path reaches, no path is longer than 64 plies (termination), children stay inside the
table.  The harness's own walk (move_new along every edge, debug assertions on) must reach, at
every node, the position text the specification computes.  Finite and complete in both tiers."""
import json
import os

from vlib import NCPU, ToolError

LEVEL = "model_checking"


def run(ctx):
    ctx.cov["rule"] = ("every node of the embedded book reachable from its root is one state (node, position); every edge "
                       "one transition. Non-trivial = every node (each has its own position); distinct = node numbers.")
    book = os.path.join(ctx.work, "book.json")
    walk = os.path.join(ctx.work, "bookwalk.json")
    raw = os.path.join(ctx.work, "bookraw.json")
    h = ctx.harness(["book-export", "--out", book, "--walk", walk, "--raw", raw])
    for pn in h["panics"]:
        ctx.violation("panic while walking the book", pn, {"kind": "panic", "panic": pn})
    for m in h["mismatches"]:
        if m.get("prop") == "C17":
            ctx.violation(m.get("kind", "book"), m, {"kind": "harness", "args": ["book-export", "--out", book, "--walk", walk], "mismatch": {k: v for k, v in m.items() if k != "input_line"}})
        else:
            ctx.other(m.get("prop", "?"))
    if h["summary"] is None:
        ctx.cov["samples"].append("book walk aborted")
        return
    cnt = h["summary"]["counts"]
    res = ctx.tlc("Book", "Book.cfg", env={"VERIF_BOOK": book}, workers=NCPU, timeout=1500, name="book", extra=["-continue"])
    hard = ctx.tlc_hard_errors(res, allow=("Invariant",))
    spec_fen = {}
    for rec in ctx.tlc_lines(res["out_path"], "BOOK"):
        spec_fen.setdefault(rec["node"], set()).add(rec["fen"])
    for v in res["violated"][:5]:
        ctx.violation("book-invariant", {"tlc": v}, {"kind": "tlc", "module": "Book", "cfg": "Book.cfg"})
    if hard and not res["violated"]:
        raise ToolError("Book model check failed: %s" % hard[:3])
    # the implementation's walk must agree with the specification node by node
    w = json.load(open(walk))
    impl_fen = {}
    for e in w:
        impl_fen.setdefault(e["node"], set()).add(e["fen"])
        if e["fen"] == "REFUSED":
            ctx.violation("edge-refused-by-move_new", e, {"kind": "harness", "args": ["book-export"], "edge": e})
    bad = 0
    for n, fens in impl_fen.items():
        if "REFUSED" in fens:
            continue
        if spec_fen.get(n) != fens:
            bad += 1
            if bad <= 5:
                ctx.violation("position-at-node-differs", {"node": n, "spec": sorted(spec_fen.get(n, [])), "impl": sorted(fens)},
                              {"kind": "harness", "args": ["book-export"], "node": n})
    if not res["violated"] and len(spec_fen) != cnt["nodes"]:
        ctx.violation("nodes-not-all-reached", {"exported": cnt["nodes"], "explored_by_spec": len(spec_fen)},
                      {"kind": "tlc", "module": "Book"})
    ctx.cov["states"] += res["distinct"]
    ctx.cov["transitions"] += res["generated"]
    ctx.cov["evaluations"] += len(w)          # one walk entry per edge, plus the root
    ctx.cov["distinct_nontrivial"] += len(spec_fen)
    ctx.cov["traces_validated_against_impl"] += len(w)
    ctx.cov["exhaustive"] = True
    ctx.cov["steps"].append({"step": "book", "nodes": cnt["nodes"], "edges": cnt["edges"], "spec_states": res["distinct"]})
    # layer S: the decoder over the raw table (spec/BookSys.tla).  Every cursor the public iterator can reach from the
    # root or the empty book is one state.  "Stays inside the table" (InTable) and "terminates" (Decreasing) are C17's
    # own words, decided on the raw words the code reads; the structural statements (room for the sibling step, a list
    # ends at its own terminator, move words, decoded lists = exported lists) are the binding of the model to the code
    # and to the encoder: disagreements there are drift.
    rs = ctx.tlc("BookSys", "BookSys.cfg", env={"VERIF_BOOK": book, "VERIF_BOOKRAW": raw}, workers=4, timeout=900, name="booksys")
    notes = list(ctx.tlc_lines(rs["out_path"], "BOOKSYS"))
    for v in rs["violated"][:3]:
        ctx.violation("layer-S-book-decoder: " + v[:100], {"tlc": v}, {"kind": "tlc", "module": "BookSys", "cfg": "BookSys.cfg"})
    if not rs["violated"] and rs["errors"]:
        raise ToolError("BookSys model check failed: %s" % rs["errors"][:3])
    # the one note known on the pinned tree: the first-encoded root record (1. Nc3, 95 cells) has no terminator below it,
    # `checked_sub` ends the root list there and the record is never yielded - an observation (section 11), no property
    # speaks about the completeness of the book
    unexpected = [n for n in notes if not (n["kind"] == "Room" and n["cur"] == n["cell"] and n["lo"] == 0)]
    ctx.cov["model_drift"] += len(unexpected)
    ctx.cov["states"] += rs["distinct"]
    ctx.cov["transitions"] += rs["generated"]
    ctx.cov["steps"].append({"step": "layer S decoder over the raw table", "cursor_states": rs["distinct"], "table_cells": cnt.get("cells"),
                             "records_cut_off_at_the_table_start": len(notes) - len(unexpected), "drift": len(unexpected),
                             "drift_kinds": sorted({n["kind"] for n in unexpected})})
    if unexpected:
        ctx.note("layer S (BookSys) and the exported trie / table layout disagree at %d cursor states (%s): model drift, not a violation"
                 % (len(unexpected), ", ".join(sorted({n["kind"] for n in unexpected}))))
    os.remove(rs["out_path"])
    depths = sorted({e["depth"] for e in w if e["node"] not in {x["node"] for x in w if False}})
    leaf_nodes = {i + 1 for i, n in enumerate(json.load(open(book))["nodes"]) if not n}
    leaf_depths = sorted({e["depth"] for e in w if e["node"] in leaf_nodes})
    ctx.cov["leaf_depths"] = leaf_depths
    leaf = next((e for e in w if e["node"] in leaf_nodes), None)
    ctx.sample({"direction": "impl->spec and spec->impl", "node": leaf["node"] if leaf else None, "fen_at_leaf": leaf["fen"] if leaf else None})
    os.remove(res["out_path"])
    ctx.assumptions += ["TLC evaluates the specification correctly",
                        "the exported trie is what the public iterator yields from INITIAL_BOOOK_MOVES (node identity = the Debug text of BookMoves)",
                        "the two nodes the public API hands out are the root and the empty book; other table indices are not constructible through the safe API and are out of scope"]
