"""C17 - every opening-book line is a legal game (DESIGN.md section 5, C17).

The trie is exported from the implementation through its public iterator; TLC model-checks the
whole graph (spec/Book.tla): from the standard start every edge must be a legal promotion-free move
of layer R in the position its path reaches, no path is longer than 64 plies (termination), children stay inside the
table.  The harness's own walk (move_new along every edge, debug assertions on) must reach, at
every node, the position text the specification computes.  Finite and complete in both tiers."""
import json
import os

from vlib import NCPU, ToolError

LEVEL = "model_checking"


def run(ctx):
    ctx.cov["rule"] = ("every node of the embedded book reachable from its root is one state (node, position); every edge "
                       "one transition. Non-trivial = every node (each has its own position); distinct = node numbers.")
    book = os.path.join(ctx.work, "book.json")
    walk = os.path.join(ctx.work, "bookwalk.json")
    h = ctx.harness(["book-export", "--out", book, "--walk", walk])
    for pn in h["panics"]:
        ctx.violation("panic while walking the book", pn, {"kind": "panic", "panic": pn})
    for m in h["mismatches"]:
        if m.get("prop") == "C17":
            ctx.violation(m.get("kind", "book"), m, {"kind": "harness", "args": ["book-export", "--out", book, "--walk", walk], "mismatch": {k: v for k, v in m.items() if k != "input_line"}})
        else:
            ctx.other(m.get("prop", "?"))
    if h["summary"] is None:
        ctx.cov["samples"].append("book walk aborted")
        return
    cnt = h["summary"]["counts"]
    res = ctx.tlc("Book", "Book.cfg", env={"VERIF_BOOK": book}, workers=NCPU, timeout=1500, name="book", extra=["-continue"])
    hard = ctx.tlc_hard_errors(res, allow=("Invariant",))
    spec_fen = {}
    for rec in ctx.tlc_lines(res["out_path"], "BOOK"):
        spec_fen.setdefault(rec["node"], set()).add(rec["fen"])
    for v in res["violated"][:5]:
        ctx.violation("book-invariant", {"tlc": v}, {"kind": "tlc", "module": "Book", "cfg": "Book.cfg"})
    if hard and not res["violated"]:
        raise ToolError("Book model check failed: %s" % hard[:3])
    # the implementation's walk must agree with the specification node by node
    w = json.load(open(walk))
    impl_fen = {}
    for e in w:
        impl_fen.setdefault(e["node"], set()).add(e["fen"])
        if e["fen"] == "REFUSED":
            ctx.violation("edge-refused-by-move_new", e, {"kind": "harness", "args": ["book-export"], "edge": e})
    bad = 0
    for n, fens in impl_fen.items():
        if "REFUSED" in fens:
            continue
        if spec_fen.get(n) != fens:
            bad += 1
            if bad <= 5:
                ctx.violation("position-at-node-differs", {"node": n, "spec": sorted(spec_fen.get(n, [])), "impl": sorted(fens)},
                              {"kind": "harness", "args": ["book-export"], "node": n})
    if not res["violated"] and len(spec_fen) != cnt["nodes"]:
        ctx.violation("nodes-not-all-reached", {"exported": cnt["nodes"], "explored_by_spec": len(spec_fen)},
                      {"kind": "tlc", "module": "Book"})
    ctx.cov["states"] += res["distinct"]
    ctx.cov["transitions"] += res["generated"]
    ctx.cov["evaluations"] += len(w)          # one walk entry per edge, plus the root
    ctx.cov["distinct_nontrivial"] += len(spec_fen)
    ctx.cov["traces_validated_against_impl"] += len(w)
    ctx.cov["exhaustive"] = True
    ctx.cov["steps"].append({"step": "book", "nodes": cnt["nodes"], "edges": cnt["edges"], "spec_states": res["distinct"]})
    depths = sorted({e["depth"] for e in w if e["node"] not in {x["node"] for x in w if False}})
    leaf_nodes = {i + 1 for i, n in enumerate(json.load(open(book))["nodes"]) if not n}
    leaf_depths = sorted({e["depth"] for e in w if e["node"] in leaf_nodes})
    ctx.cov["leaf_depths"] = leaf_depths
    leaf = next((e for e in w if e["node"] in leaf_nodes), None)
    ctx.sample({"direction": "impl->spec and spec->impl", "node": leaf["node"] if leaf else None, "fen_at_leaf": leaf["fen"] if leaf else None})
    os.remove(res["out_path"])
    ctx.assumptions += ["TLC evaluates the specification correctly",
                        "the exported trie is what the public iterator yields from INITIAL_BOOOK_MOVES (node identity = the Debug text of BookMoves)",
                        "the two nodes the public API hands out are the root and the empty book; other table indices are not constructible through the safe API and are out of scope"]
