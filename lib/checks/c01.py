"""C01 - generated moves are exactly the legal moves (DESIGN.md section 5, C01)."""
from boardchecks import board_pipeline, sys_model_check
from vlib import root_indices

LEVEL = "model_checking"


def run(ctx):
    nb = root_indices(tags=["nb"])
    allr = root_indices()
    r0 = root_indices(tags=["r0"])
    if ctx.tier == "quick":
        # depth 2 from half of the neighbourhood roots (seed picks the half), depth 1 from every root
        half = [r for k, r in enumerate(nb) if (k + ctx.seed) % 2 == 0]
        bfs = [("nb2", half, 2), ("all1", allr, 1)]
        walks = [dict(label="walk", tags="", walks=12, plies=40, shards=12)]
    else:
        bfs = [("nb3", nb, 3), ("all2", allr, 2)]
        walks = [dict(label="walk", tags="", walks=40, plies=80, shards=28)]
    fam = [("ep-slice", "Families_pos.cfg", {"VERIF_FAMILY": "ep", "VERIF_VARIANT": "rbq"[ctx.seed % 3], "VERIF_FILE": (ctx.seed * 3) % 8,
                                              "VERIF_SLICE": ctx.seed % 16, "VERIF_SLICES": 16})] if ctx.tier == "quick" else \
          [("ep-%s-%d" % (v, f), "Families_pos.cfg", {"VERIF_FAMILY": "ep", "VERIF_VARIANT": v, "VERIF_FILE": f, "VERIF_SLICE": (ctx.seed + f) % 8, "VERIF_SLICES": 8})
           for v in "rbq" for f in range(8)]
    if ctx.tier == "quick":
        fam = fam + [("castle-slice", "Families_pos.cfg", {"VERIF_FAMILY": "castle", "VERIF_VARIANT": "nbrqp"[(ctx.seed + 2) % 5], "VERIF_FILE": 0,
                                                            "VERIF_SLICE": (ctx.seed + 5) % 16, "VERIF_SLICES": 16}),
                     ("promo-slice", "Families_pos.cfg", {"VERIF_FAMILY": "promo", "VERIF_VARIANT": "rbq"[(ctx.seed + 1) % 3], "VERIF_FILE": (ctx.seed * 5 + 3) % 8,
                                                           "VERIF_SLICE": (ctx.seed * 13 + 7) % 64, "VERIF_SLICES": 64})]
    else:
        fam = fam + [("castle-%s" % v, "Families_pos.cfg", {"VERIF_FAMILY": "castle", "VERIF_VARIANT": v, "VERIF_FILE": 0, "VERIF_SLICE": 0, "VERIF_SLICES": 2}) for v in "nbrqp"]
        fam = fam + [("promo-%s-%d" % (v, f), "Families_pos.cfg", {"VERIF_FAMILY": "promo", "VERIF_VARIANT": v, "VERIF_FILE": f, "VERIF_SLICE": (ctx.seed + 3 * f) % 64, "VERIF_SLICES": 64}) for v in "rbq" for f in (0, 3, 7)]
    # check evasion / pins / double checks in the king's neighbourhood (1152 slices; thorough takes 24 of them)
    ev = [(ctx.seed * 131 + 0 + i * 48) % 1152 for i in range(1 if ctx.tier == "quick" else 24)]
    fam = fam + [("evade-%d" % sl, "Families_pos.cfg", {"VERIF_FAMILY": "evade", "VERIF_VARIANT": "x", "VERIF_FILE": 0, "VERIF_SLICE": sl, "VERIF_SLICES": 1152}) for sl in ev]
    board_pipeline(ctx, bfs, walks, fam)
    # the single-move questions (is_legal, move_new, move_mut, move_into) against the generator's own list over all
    # 20480 triples on sampled positions of seeded walks (equalities between observations of the implementation)
    from vlib import NCPU
    shards = max(1, NCPU - 2)
    sw = ctx.pmap(lambda i: ctx.harness(["sweep-twin", "--seed", ctx.seed + 41, "--shard", i, "--walks", 40 if ctx.tier == "quick" else 600,
                                          "--plies", 60, "--probe-every", 12]), list(range(shards)))
    probed = 0
    for r in sw:
        ctx.absorb(r)
        if r["summary"]:
            probed += r["summary"]["counts"].get("probed_positions", 0)
    ctx.cov["evaluations"] += probed * 20480
    ctx.cov["steps"].append({"step": "is_legal / checked operations vs generator sweep", "positions_probed": probed, "triples": probed * 20480})
    sys_model_check(ctx, allr, 1 if ctx.tier == "quick" else 2)
