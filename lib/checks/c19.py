"""C19 - text forms of squares, files, ranks, pieces and moves; enum iterators
(DESIGN.md section 5, C19).

Parsers (impl -> spec): the harness records the graph of every parser over complete finite domains
(256 bytes, 65536 two-byte strings, all 4- and 5-byte strings over an alphabet of relevant bytes)
plus seeded random strings, the written forms and the coordinate algebra; TLC recomputes them from
spec/Text.tla (spec/TextMC.tla).
Iterators (spec -> impl): TLC generates the full state graph of the slice-iterator model
(spec/EnumIter.tla) and prints one behaviour per transition; each is replayed on the real
Color/Side/Piece/File/Rank::all(), Pos::all(), File::iter and Rank::iter."""
import json
import os
import shutil

from vlib import NCPU, ToolError, REPLAYS

LEVEL = "model_checking"


def run(ctx):
    quick = ctx.tier == "quick"
    ctx.cov["rule"] = ("parsers: every input of the stated finite domains is tried (counted in inputs_tried); iterators: "
                       "every transition of the model's state graph is one replayed behaviour. Non-trivial = all of them "
                       "(each is a distinct input or transition).")
    # parsers
    tr = os.path.join(ctx.work, "text.ndjson")
    h = ctx.harness(["record-text", "--seed", ctx.seed, "--alphabet", 9 if quick else 14,
                     "--random", 2000 if quick else 20000, "--out", tr])
    for pn in h["panics"]:
        ctx.violation("panic", pn, {"kind": "panic", "panic": pn})
    r = ctx.tlc("TextMC", "TextMC.cfg", env={"VERIF_TRACE": tr}, workers=1, deque=True, timeout=1500, name="text",
                xmx="6g")
    done = list(ctx.tlc_lines(r["out_path"], "DONE"))
    if not done or done[0]["lines"] != done[0]["consumed"]:
        raise ToolError("text trace validation failed: %s" % r["errors"][:3])
    bads = list(ctx.tlc_lines(r["out_path"], "BAD"))
    if bads:
        kept = os.path.join(REPLAYS, "C19-%s-%d-trace-text.ndjson" % (ctx.tier, ctx.seed))
        shutil.copy(tr, kept)
        for b in bads:
            ctx.violation(b["check"], {"trace_line": b["line"]}, {"kind": "trace", "record_args": [str(a) for a in h["args"]], "trace": kept, "line": b["line"], "module": "TextMC"})
    # Rust-side consistency of the alternative entry points (byte / slice / str)
    first = json.loads(open(tr).readline())
    if first.get("entry_points_agree") is not True:
        ctx.violation("entry-points-disagree", {"event": "byte_parsers"}, {"kind": "harness", "args": ["record-text"]})
    tried = (h["summary"] or {"counts": {}})["counts"].get("inputs_tried", 0)
    ctx.cov["evaluations"] += tried
    ctx.cov["distinct_nontrivial"] += tried
    ctx.cov["states"] += r["distinct"]
    ctx.cov["transitions"] += r["generated"]
    ctx.cov["traces_validated_against_impl"] += 1
    ctx.cov["steps"].append({"step": "parsers", "inputs_tried": tried, "events": done[0]["lines"]})
    ctx.sample({"direction": "impl->spec", "event": "byte_parsers", "file": first["file"][:4], "rank": first["rank"][:3]})
    os.remove(tr)
    # iterators: (kind, N, double-ended)
    plans = [("de2", 2, 1), ("de6", 6, 1), ("de8", 8, 1), ("fwd8", 8, 0), ("fwd64", 64, 0)]

    def one(plan):
        kind, n, de = plan
        res = ctx.tlc("EnumIter", "EnumIter.cfg", env={"VERIF_N": n, "VERIF_DE": de}, workers=1, timeout=900,
                      name="enum-" + kind, xmx="4g")
        if ctx.tlc_hard_errors(res) or res["violated"]:
            raise ToolError("EnumIter failed for %s: %s" % (kind, (res["errors"] + res["violated"])[:3]))
        hh = ctx.harness(["replay-enum", "--kind", kind], stdin_path=res["out_path"])
        return plan, res, hh

    for (kind, n, de), res, hh in ctx.pmap(one, plans, jobs=5):
        ctx.absorb(hh)
        for pn in hh["panics"]:
            ctx.violation("panic", pn, {"kind": "panic", "panic": pn})
        s = hh["summary"] or {"counts": {"lines": 0, "iterator_runs": 0}, "samples": []}
        ctx.cov["states"] += res["distinct"]
        ctx.cov["transitions"] += res["generated"]
        ctx.cov["evaluations"] += s["counts"]["iterator_runs"]
        ctx.cov["distinct_nontrivial"] += s["counts"]["lines"]
        ctx.cov["traces_validated_against_impl"] += s["counts"]["iterator_runs"]
        ctx.cov["steps"].append({"step": "enum iterator " + kind, "n": n, "states": res["distinct"],
                                 "transitions_replayed": s["counts"]["lines"], "iterator_runs": s["counts"]["iterator_runs"]})
        for smp in s["samples"][:1]:
            ctx.sample({"direction": "spec->impl", **smp})
        os.remove(res["out_path"])
    ctx.cov["exhaustive"] = True
    ctx.assumptions += ["TLC evaluates the specification correctly",
                        "move strings of length 4 and 5 are enumerated over an alphabet of relevant bytes (listed in the trace), not over all 256^5 strings"]
