"""C20 - the per-thread tracing override is isolated from other threads
(DESIGN.md section 5, C20).

Model checking: spec/Tracing.tla (global flag, per-thread override and saved override, nine
operations per thread) is explored completely for two threads: the view invariant, the action
property 'a step of one thread leaves the other thread's override untouched' and the take/restore
round trip hold in all 288 states / 8496 transitions.
Binding: every transition of that graph is one behaviour (path to its source state + the
operation) replayed on two real OS threads stepped through channels; after every step both
threads' is_enabled() must equal the specification's views.  Complete in both tiers."""
import os

from vlib import ToolError

LEVEL = "model_checking"


def run(ctx):
    ctx.cov["rule"] = ("one replayed behaviour per transition of the complete two-thread state graph (each operation "
                       "touches the shared flag at most once, so operation-granularity interleavings are complete); all "
                       "are distinct and non-trivial.")
    res = ctx.tlc("Tracing", "Tracing.cfg", workers=1, timeout=600, name="tracing")
    if res["violated"] or ctx.tlc_hard_errors(res):
        ctx.violation("tracing-model", {"tlc": (res["violated"] + res["errors"])[:3]}, {"kind": "tlc", "module": "Tracing", "cfg": "Tracing.cfg"})
        return
    # layer S: enable/disable/toggle as two steps (thread-local step, then the store to the shared flag) with the
    # other thread free to run in between refine the operation-granularity model (spec/TracingSys.tla)
    rs = ctx.tlc("TracingSys", "TracingSys.cfg", workers=4, timeout=900, name="tracing-sys")
    if rs["violated"] or rs["errors"]:
        ctx.violation("two-step-model-does-not-refine", {"tlc": (rs["violated"] + rs["errors"])[:3]}, {"kind": "tlc", "module": "TracingSys", "cfg": "TracingSys.cfg"})
    ctx.cov["steps"].append({"step": "layer S (two-step operations) refines the operation-granularity model", "distinct": rs["distinct"]})
    sys_states, sys_trans = rs["distinct"], rs["generated"]
    os.remove(rs["out_path"])
    h = ctx.harness(["replay-tracing"], stdin_path=res["out_path"])
    ctx.absorb(h)
    for pn in h["panics"]:
        ctx.violation("panic", pn, {"kind": "panic", "panic": pn})
    s = h["summary"] or {"counts": {"lines": 0, "steps": 0}, "samples": []}
    if s["counts"]["lines"] != res["generated"] - 1:
        ctx.note("TLC generated %d transitions, %d replayed" % (res["generated"] - 1, s["counts"]["lines"]))
    ctx.cov["states"] = res["distinct"] + sys_states
    ctx.cov["transitions"] = res["generated"] + sys_trans
    ctx.cov["evaluations"] = s["counts"]["steps"]
    ctx.cov["distinct_nontrivial"] = s["counts"]["lines"]
    ctx.cov["traces_validated_against_impl"] = s["counts"]["lines"]
    ctx.cov["exhaustive"] = True
    for smp in s["samples"][:2]:
        ctx.sample({"direction": "spec->impl", **smp})
    ctx.cov["steps"].append({"step": "transitions replayed on two OS threads", "behaviours": s["counts"]["lines"], "steps": s["counts"]["steps"]})
    os.remove(res["out_path"])
    ctx.assumptions += ["TLC evaluates the specification correctly",
                        "two threads suffice (operations of a third thread could only touch the global flag, like the second's)",
                        "a step is observed only after it has completed (channel hand-shake), so intra-operation interleavings are not forced; each operation touches the shared flag at most once"]
