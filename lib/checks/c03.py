"""C03 - check, mate and draw status; incrementally maintained state never goes stale
(DESIGN.md section 5, C03)."""
from boardchecks import board_pipeline, sys_model_check, games_and_validate
from vlib import root_indices

LEVEL = "model_checking"


def run(ctx):
    hot = root_indices(tags=["check", "clock", "castle", "promo"])
    ep = root_indices(tags=["ep"])
    allr = root_indices()
    if ctx.tier == "quick":
        part = [r for k, r in enumerate(hot) if (k + ctx.seed) % 3 != 0]
        bfs = [("hot2", part, 2), ("ep2", ep[:12], 2)]
        walks = [dict(label="walk-hot", tags="check,clock,castle,promo,ep", walks=12, plies=40, shards=12)]
    else:
        bfs = [("hot3", hot, 3), ("ep3", ep, 3), ("all2", allr, 2)]
        walks = [dict(label="walk-hot", tags="check,clock,castle,promo,ep", walks=40, plies=80, shards=28),
                 dict(label="walk-all", tags="", walks=20, plies=120, shards=14)]
    fam = [("promo-slice", "Families_pos.cfg", {"VERIF_FAMILY": "promo", "VERIF_VARIANT": "rbq"[ctx.seed % 3], "VERIF_FILE": (ctx.seed * 5) % 8,
                                                 "VERIF_SLICE": (ctx.seed * 13) % 64, "VERIF_SLICES": 64})] if ctx.tier == "quick" else \
          [("promo-%s-%d" % (v, f), "Families_pos.cfg", {"VERIF_FAMILY": "promo", "VERIF_VARIANT": v, "VERIF_FILE": f, "VERIF_SLICE": (ctx.seed + 5 * f) % 64, "VERIF_SLICES": 64})
           for v in "rbq" for f in range(8)]
    fam = fam + ([("ep-slice", "Families_pos.cfg", {"VERIF_FAMILY": "ep", "VERIF_VARIANT": "rbq"[(ctx.seed + 1) % 3], "VERIF_FILE": (ctx.seed * 3 + 2) % 8,
                                                    "VERIF_SLICE": (ctx.seed + 3) % 16, "VERIF_SLICES": 16})] if ctx.tier == "quick" else
                 [("ep-%s-%d" % (v, f), "Families_pos.cfg", {"VERIF_FAMILY": "ep", "VERIF_VARIANT": v, "VERIF_FILE": f, "VERIF_SLICE": (ctx.seed + 3 + f) % 8, "VERIF_SLICES": 8})
                  for v in "rq" for f in range(8)])
    # check evasion / pins / double checks in the king's neighbourhood (1152 slices; thorough takes 24 of them)
    ev = [(ctx.seed * 131 + 577 + i * 48) % 1152 for i in range(1 if ctx.tier == "quick" else 24)]
    fam = fam + [("evade-%d" % sl, "Families_pos.cfg", {"VERIF_FAMILY": "evade", "VERIF_VARIANT": "x", "VERIF_FILE": 0, "VERIF_SLICE": sl, "VERIF_SLICES": 1152}) for sl in ev]
    # double checks with a third slider pinning (battery + pin, every double-checking move played): the incremental
    # bookkeeping has to record two checkers and a pin at once
    if ctx.tier == "quick":
        fam = fam + [("discover-slice", "Families_pos.cfg", {"VERIF_FAMILY": "discover", "VERIF_VARIANT": "x", "VERIF_FILE": ctx.seed % 2,
                                                            "VERIF_SLICE": (ctx.seed * 5) % 16, "VERIF_SLICES": 16})]
    else:
        fam = fam + [("discover-%d-%d" % (f, i), "Families_pos.cfg", {"VERIF_FAMILY": "discover", "VERIF_VARIANT": "x", "VERIF_FILE": f,
                                                                      "VERIF_SLICE": (ctx.seed + i) % 16, "VERIF_SLICES": 16}) for f in (0, 1) for i in range(6)]
    board_pipeline(ctx, bfs, walks, fam)
    # second sentence of the property in volume: moved board against the same position rebuilt from its text
    # (equality of two observations of the implementation - no oracle, implementation speed)
    from vlib import NCPU
    shards = max(1, NCPU - 2)
    res = ctx.pmap(lambda i: ctx.harness(["sweep-twin", "--seed", ctx.seed, "--shard", i, "--walks", 150 if ctx.tier == "quick" else 3000, "--plies", 60]), list(range(shards)))
    npos = 0
    for r in res:
        ctx.absorb(r)
        if r["summary"]:
            npos += r["summary"]["counts"].get("positions", 0)
            ctx.cov["distinct_nontrivial"] += r["summary"]["nontrivial"]
    ctx.cov["evaluations"] += npos
    ctx.cov["steps"].append({"step": "moved-vs-rebuilt sweep", "positions": npos})
    games_and_validate(ctx, 4 if ctx.tier == "quick" else 14, 3000 if ctx.tier == "quick" else 20000)
    sys_model_check(ctx, hot, 1 if ctx.tier == "quick" else 2)
