"""C14 - scores form a total order matching game-theoretic preference (DESIGN.md section 5, C14).

Proof: spec/ScoreProofs.tla proves with TLAPS, for all payloads, that Lt of spec/Score.tla is a
strict total order (irreflexive, asymmetric, transitive, total up to Eq), that white mates lie above
numeric scores above black mates with the sentinels as extremes, and the within-kind directions.
Binding: the implementation's cmp, partial_cmp, ==, <, <=, >, >=, max, min are evaluated on all
pairs of a grid (5 variants x boundary and seeded payloads) and TLC validates each against Cmp of
the proved order (spec/ScoreTrace.tla)."""
import os
import re
import shutil
import subprocess

from vlib import SPEC, ToolError, REPLAYS

LEVEL = "proof"


def run(ctx):
    quick = ctx.tier == "quick"
    # 1. the proof (in a scratch copy: tlapm writes a cache next to the module)
    d = os.path.join(ctx.work, "tlaps")
    os.makedirs(d)
    for f in ("Score.tla", "ScoreProofs.tla"):
        shutil.copy(os.path.join(SPEC, f), d)
    cmd = ["timeout", "900", "tlapm", "--threads", "8", "ScoreProofs.tla"]
    p = subprocess.run(cmd, cwd=d, stdout=subprocess.PIPE, stderr=subprocess.STDOUT, text=True)
    m = re.search(r"All (\d+) obligations? proved", p.stdout)
    failed = re.search(r"(\d+)/(\d+) obligations? failed", p.stdout)
    if m:
        ob = dis = int(m.group(1))
    elif failed:
        ob = int(failed.group(2))
        dis = ob - int(failed.group(1))
    else:
        raise ToolError("tlapm did not report a result: %s" % p.stdout[-1500:])
    ctx.cov["obligations"] = ob
    ctx.cov["discharged"] = dis
    ctx.cov["checker_cmd"] = "tlapm --threads 8 ScoreProofs.tla (in a copy of spec/)"
    ctx.cov["trusted_base"] = ["TLAPS 1.6 (tlapm) and its back ends (SMT, Zenon, Isabelle)",
                               "spec/Score.tla states the order the property describes",
                               "TLC for the pairwise binding of the implementation to that order"]
    if dis != ob:
        ctx.violation("proof-obligations-failed", {"obligations": ob, "discharged": dis, "tail": p.stdout[-800:]},
                      {"kind": "tlapm", "module": "ScoreProofs"})
    # 2. binding
    tr = os.path.join(ctx.work, "score.ndjson")
    h = ctx.harness(["record-score", "--seed", ctx.seed, "--random", 24 if quick else 120, "--out", tr])
    for pn in h["panics"]:
        ctx.violation("panic", pn, {"kind": "panic", "panic": pn})
    r = ctx.tlc("ScoreTrace", "ScoreTrace.cfg", env={"VERIF_TRACE": tr}, workers=1, deque=True, timeout=1500, name="score")
    done = list(ctx.tlc_lines(r["out_path"], "DONE"))
    if not done or done[0]["lines"] != done[0]["consumed"]:
        raise ToolError("score trace validation failed: %s" % r["errors"][:3])
    bads = list(ctx.tlc_lines(r["out_path"], "BAD"))
    if bads:
        kept = os.path.join(REPLAYS, "C14-%s-%d-trace.ndjson" % (ctx.tier, ctx.seed))
        shutil.copy(tr, kept)
        seen = set()
        for b in bads:
            if b["check"] in seen:
                continue
            seen.add(b["check"])
            ctx.violation(b["check"], {"trace_line": b["line"]}, {"kind": "trace", "record_args": [str(a) for a in h["args"]], "trace": kept, "line": b["line"], "module": "ScoreTrace"})
    pairs = h["summary"]["counts"]["pairs"]
    ctx.cov["evaluations"] += pairs
    ctx.cov["distinct_nontrivial"] += pairs
    ctx.cov["states"] += r["distinct"]
    ctx.cov["transitions"] += r["generated"]
    ctx.cov["traces_validated_against_impl"] += 1
    ctx.cov["rule"] = "all ordered pairs of the score grid (%d scores); every pair is distinct" % h["summary"]["counts"]["scores"]
    ctx.sample({"proof": "ScoreProofs.tla: %d/%d obligations" % (dis, ob), "binding_pairs": pairs})
    ctx.cov["steps"].append({"step": "tlapm", "obligations": ob, "discharged": dis})
    ctx.cov["steps"].append({"step": "pairwise binding", "pairs": pairs})
    os.remove(tr)
    ctx.assumptions += ["the implementation's order is compared with the proved one on a finite grid (boundaries and seeded payloads), not on all 2^33 scores"]
