"""C09 - geometry tables and constants equal their definitions (DESIGN.md section 5, C09).

spec -> impl: TLC computes every table from the geometric definitions (spec/Geometry.tla) and
prints them; the harness compares chess-lookup's accessors, chess-lookup-generator's functions and
the pawn helpers under all 2^k relevant occupancies.  Finite and complete in both tiers."""
import os

from vlib import NCPU, ToolError

LEVEL = "model_checking"


def run(ctx):
    ctx.cov["rule"] = ("one comparison per table entry: 64 squares x {knight, king, pawn push x2, pawn capture x2, rook "
                       "rays, bishop rays} for the checked-in tables and for the generator; 64x64 pairs x {between, line, "
                       "distance} (+ generator); every relevant occupancy of the pawn helpers (also under off-relevant "
                       "noise); every constant. All entries are distinct and count as non-trivial.")
    res = ctx.tlc("GeometryMC", "GeometryMC.cfg", workers=min(NCPU, 8), timeout=900, name="geometry")
    if ctx.tlc_hard_errors(res) or res["violated"]:
        raise ToolError("GeometryMC failed: %s" % (res["errors"] + res["violated"])[:3])
    parts, n = ctx.split_lines(res["out_path"], "GEO", 8)
    os.remove(res["out_path"])
    if n != 64 * 4 + 1:
        raise ToolError("expected 257 table rows from TLC, got %d" % n)
    entries = 0
    for r in ctx.pmap(lambda p: ctx.harness(["replay-geo"], stdin_path=p), parts):
        ctx.absorb(r)
        for pn in r["panics"]:
            ctx.violation("panic", pn, {"kind": "panic", "panic": pn})
        if r["summary"]:
            entries += r["summary"]["counts"]["entries"]
            for s in r["summary"]["samples"][:1]:
                ctx.sample({"direction": "spec->impl", **s})
    for p in parts:
        os.remove(p)
    ctx.cov["states"] += res["distinct"]
    ctx.cov["transitions"] += res["generated"]
    ctx.cov["evaluations"] += entries
    ctx.cov["distinct_nontrivial"] += entries
    ctx.cov["traces_validated_against_impl"] += n
    ctx.cov["exhaustive"] = True
    ctx.cov["steps"].append({"step": "tables", "rows": n, "entries_compared": entries})
    ctx.assumptions += ["TLC evaluates the specification correctly",
                        "the geometric definitions of spec/Geometry.tla are the intended ones (their internal consistency is ASSUMEd: between within line, symmetry, knight and king distances, 14 rook-ray squares)"]
