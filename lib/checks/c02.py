"""C02 - applying a legal move yields the correct successor; checked operations accept exactly
the legal moves and leave the board untouched when they refuse (DESIGN.md section 5, C02)."""
import boardchecks
from boardchecks import board_pipeline
from vlib import root_indices

LEVEL = "model_checking"


def run(ctx):
    nb = root_indices(tags=["nb"])
    allr = root_indices()
    r0 = root_indices(tags=["r0"])
    # the accept/refuse sweep over all 20480 triples is what C02 adds: probe more often
    boardchecks.PROBE_EVERY = {"quick": 16, "thorough": 6}
    if ctx.tier == "quick":
        half = [r for k, r in enumerate(nb) if (k + ctx.seed) % 2 == 1]
        bfs = [("nb2", half, 2), ("all1", allr, 1)]
        walks = [dict(label="walk", tags="", walks=12, plies=40, shards=12, illegal_pct=30)]
    else:
        bfs = [("nb3", nb, 3), ("all2", allr, 2)]
        walks = [dict(label="walk", tags="", walks=40, plies=80, shards=28, illegal_pct=30)]
    fam = [("castle-slice", "Families_pos.cfg", {"VERIF_FAMILY": "castle", "VERIF_VARIANT": "nbrqp"[ctx.seed % 5], "VERIF_FILE": 0,
                                                  "VERIF_SLICE": ctx.seed % 8, "VERIF_SLICES": 8, "VERIF_HM": 0, "VERIF_EXTRA": "", "VERIF_EDGE": 0, "VERIF_NEAR": 0})] if ctx.tier == "quick" else \
          [("castle-%s" % v, "Families_pos.cfg", {"VERIF_FAMILY": "castle", "VERIF_VARIANT": v, "VERIF_FILE": 0, "VERIF_SLICE": ctx.seed % 2, "VERIF_SLICES": 2})
           for v in "nbrqp"]
    board_pipeline(ctx, bfs, walks, fam)
    # the single-move questions (is_legal, move_new, move_mut, move_into) against the generator's own list over all
    # 20480 triples on sampled positions of seeded walks (equalities between observations of the implementation)
    from vlib import NCPU
    shards = max(1, NCPU - 2)
    sw = ctx.pmap(lambda i: ctx.harness(["sweep-twin", "--seed", ctx.seed + 43, "--shard", i, "--walks", 40 if ctx.tier == "quick" else 600,
                                          "--plies", 60, "--probe-every", 12]), list(range(shards)))
    probed = 0
    for r in sw:
        ctx.absorb(r)
        if r["summary"]:
            probed += r["summary"]["counts"].get("probed_positions", 0)
    ctx.cov["evaluations"] += probed * 20480
    ctx.cov["steps"].append({"step": "is_legal / checked operations vs generator sweep", "positions_probed": probed, "triples": probed * 20480})
