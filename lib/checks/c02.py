"""C02 - applying a legal move yields the correct successor; checked operations accept exactly
the legal moves and leave the board untouched when they refuse (DESIGN.md section 5, C02)."""
import boardchecks
from boardchecks import board_pipeline
from vlib import root_indices

LEVEL = "model_checking"


def run(ctx):
    nb = root_indices(tags=["nb"])
    allr = root_indices()
    r0 = root_indices(tags=["r0"])
    # the accept/refuse sweep over all 20480 triples is what C02 adds: probe more often
    boardchecks.PROBE_EVERY = {"quick": 16, "thorough": 6}
    if ctx.tier == "quick":
        half = [r for k, r in enumerate(nb) if (k + ctx.seed) % 2 == 1]
        bfs = [("nb2", half, 2), ("all1", allr, 1)]
        walks = [dict(label="walk", tags="", walks=12, plies=40, shards=12, illegal_pct=30)]
    else:
        bfs = [("nb3", nb, 3), ("all2", allr, 2)]
        walks = [dict(label="walk", tags="", walks=40, plies=80, shards=28, illegal_pct=30)]
    fam = [("castle-slice", "Families_pos.cfg", {"VERIF_FAMILY": "castle", "VERIF_VARIANT": "nbrqp"[ctx.seed % 5], "VERIF_FILE": 0,
                                                  "VERIF_SLICE": ctx.seed % 8, "VERIF_SLICES": 8, "VERIF_HM": 0, "VERIF_EXTRA": "", "VERIF_EDGE": 0, "VERIF_NEAR": 0})] if ctx.tier == "quick" else \
          [("castle-%s" % v, "Families_pos.cfg", {"VERIF_FAMILY": "castle", "VERIF_VARIANT": v, "VERIF_FILE": 0, "VERIF_SLICE": ctx.seed % 2, "VERIF_SLICES": 2})
           for v in "nbrqp"]
    board_pipeline(ctx, bfs, walks, fam)
