"""C11 - the search returns a legal move whenever the time limit may expire
(DESIGN.md section 5, C11).

Model checking: the control skeleton of the iterative-deepening loop (spec/Search.tla; one action
per critical section, nondeterministic monotone expiry) satisfies the C11 invariants, never adopts a
pass after expiry and terminates - exhaustively for 4 root moves / 3 passes and for no root move.
Trace validation: the real engine is run with a counting limit that expires first at poll k, for
EVERY k up to the cost of three passes on small positions and for seeded k on larger ones (with
empty and non-empty repetition histories); hook events and polls are validated against layer R
(spec/SearchTrace.tla)."""
import json
import os

from searchchecks import validate_search_trace, ASSUME
from vlib import NCPU, ToolError

LEVEL = "model_checking"


def run(ctx):
    quick = ctx.tier == "quick"
    ctx.cov["rule"] = ("one run per (position, repetition history, expiry index k); one trace event per hook event / "
                       "significant poll. Non-trivial = runs (each has its own k); distinct = (position, k) pairs.")
    for cfg in ("Search.cfg", "Search_empty.cfg"):
        r = ctx.tlc("Search", cfg, workers=4, timeout=600, name="skeleton-" + cfg)
        if r["errors"] or r["violated"]:
            ctx.violation("search-skeleton-model", {"cfg": cfg, "tlc": (r["violated"] + r["errors"])[:3]},
                          {"kind": "tlc", "module": "Search", "cfg": cfg})
        ctx.cov["states"] += r["distinct"]
        ctx.cov["transitions"] += r["generated"]
        os.remove(r["out_path"])
    # the same skeleton for any set of root moves and any number of passes: inductive invariant proved with TLAPS
    import re, shutil, subprocess
    from vlib import SPEC
    d = os.path.join(ctx.work, "tlaps")
    os.makedirs(d)
    for f in ("Search.tla", "SearchProofs.tla"):
        shutil.copy(os.path.join(SPEC, f), d)
    p = subprocess.run(["timeout", "1200", "tlapm", "--threads", "6", "SearchProofs.tla"], cwd=d, stdout=subprocess.PIPE, stderr=subprocess.STDOUT, text=True)
    m = re.search(r"All (\d+) obligations? proved", p.stdout)
    failed = re.search(r"(\d+)/(\d+) obligations? failed", p.stdout)
    if m:
        ctx.cov["steps"].append({"step": "tlapm SearchProofs.tla", "obligations": int(m.group(1)), "discharged": int(m.group(1))})
    elif failed:
        ctx.violation("search-skeleton-proof", {"failed": failed.group(0), "tail": p.stdout[-600:]}, {"kind": "tlapm", "module": "SearchProofs"})
    else:
        raise ToolError("tlapm did not report a result: %s" % p.stdout[-1200:])
    plans = [
        ("allk", "perft,check,clock", 6 if quick else 14, 12000 if quick else 400000, 400 if quick else 6000),
        ("allk", "nb", 4 if quick else 14, 12000 if quick else 400000, 400 if quick else 6000),
        ("sample", "r0,cpw,crowd,std", 2 if quick else 14, 12000 if quick else 300000, 0),
    ]
    jobs = [(m, t, n, s, ev, km) for (m, t, n, ev, km) in plans for s in range(n)]

    def one(job):
        mode, tags, shards, s, ev, kmax = job
        name = "search-%s-%s-%d" % (mode, tags.split(",")[0], s)
        tr = os.path.join(ctx.work, name + ".ndjson")
        h = ctx.harness(["record-search", "--mode", mode, "--tags", tags, "--shards", shards, "--shard", s, "--events", ev,
                         "--kmax", kmax, "--seed", ctx.seed, "--per-root", 1 if quick else 3, "--out", tr,
                         "--cap", (6000 if quick else 60000) if mode == "sample" else 200000,
                         "--samples", 12 if quick else 40], timeout=3000)
        n = validate_search_trace(ctx, tr, name, [str(a) for a in h["args"]])
        return name, tr, h, n

    total = runs = 0
    for name, tr, h, n in ctx.pmap(one, jobs):
        for pn in h["panics"]:
            ctx.violation("panic", pn, {"kind": "panic", "panic": pn})
        s = h["summary"] or {"counts": {"runs": 0}}
        runs += s["counts"]["runs"]
        total += n
        if len(ctx.cov["samples"]) < 3:
            lines = open(tr).read().split("\n")
            beg = json.loads(lines[0])
            ctx.sample({"direction": "impl->spec", "scenario": name, "fen": beg["fen"], "meta": beg["meta"],
                        "next_events": [json.loads(x) for x in lines[1:5] if x]})
        os.remove(tr)
    ctx.cov["evaluations"] += total
    ctx.cov["distinct_nontrivial"] += runs
    ctx.cov["traces_validated_against_impl"] += runs
    ctx.cov["steps"].append({"step": "search traces", "shards": len(jobs), "runs": runs, "events_validated": total})
    ctx.assumptions += ASSUME
