"""C13 - the search is colour-symmetric (DESIGN.md section 5, C13).

TLC generates positions with their colour mirror (Mirror of spec/Chess.tla; positions whose mover
has a promotion move at the root are excluded by the specification, as the property says); the
default Engine (positional evaluation off, empty repetition history) searches both under the same
poll budget and the per-depth committed scores (hook events) must be negations of each other
(spec/Score.tla: Neg) for every depth both completed; validated by spec/SearchTrace.tla."""
import os

from searchchecks import validate_search_trace, ASSUME
from vlib import NCPU, ToolError, root_indices
from boardchecks import write_sel

LEVEL = "model_checking"


def run(ctx):
    quick = ctx.tier == "quick"
    ctx.cov["rule"] = ("one pair of searches per generated position without a root promotion; one evaluation per (pair, depth) "
                       "compared (every depth both searches completed); non-trivial and distinct = pairs (distinct positions, each "
                       "searched with its mirror and compared on at least the first completed depth).")
    # design level: the engine's alpha-beta returns the exact minimax value at the root for every leaf assignment of
    # small trees (spec/AlphaBeta.tla over the proved score order) - the fact that makes the committed score of a
    # pass a function of the position, hence comparable between a position and its mirror
    for cfg in (["AlphaBeta_quick.cfg"] if quick else ["AlphaBeta_quick.cfg", "AlphaBeta_wide.cfg", "AlphaBeta.cfg"]):
        ra = ctx.tlc("AlphaBeta", cfg, workers=4, timeout=3000, name="alphabeta-" + cfg)
        if ra["violated"] or ra["errors"]:
            ctx.violation("alpha-beta-model: root value is not the minimax value", {"cfg": cfg, "tlc": (ra["violated"] + ra["errors"])[:3]},
                          {"kind": "tlc", "module": "AlphaBeta", "cfg": cfg})
        ctx.cov["states"] += ra["distinct"]
        ctx.cov["transitions"] += ra["generated"]
        ctx.cov["steps"].append({"step": "alpha-beta = minimax on abstract trees (" + cfg + ")", "trees": ra["distinct"]})
        os.remove(ra["out_path"])
    idx = root_indices(tags=["r0", "perft", "nb"])
    if quick:
        idx = [r for k, r in enumerate(idx) if (k + ctx.seed) % 4 == 0]
    res = ctx.tlc("ChessMC", "ChessMC_search.cfg", env={"VERIF_DEPTH": 1 if quick else 2, "VERIF_ROOTSEL": write_sel(ctx, idx, "mirror"),
                                                       "VERIF_KEYS": ctx.keys()}, workers=NCPU, timeout=3000, name="mirror-gen")
    if ctx.tlc_hard_errors(res) or res["violated"]:
        raise ToolError("TLC failed generating mirror pairs: %s" % (res["errors"] + res["violated"])[:3])
    # material configurations around the evaluation's thresholds (placement families, heavily sliced)
    variants = ["KQQ", "KQR", "KQRR", "KQRB", "KRRR", "KRR", "KBB", "KBN", "KQ", "KR", "KNN"]
    # K+Q+Q is exactly the evaluation's endgame threshold (1800): always included
    picks = (["KQQ"] + [variants[1 + (ctx.seed + i) % (len(variants) - 1)] for i in range(2)]) if quick else variants
    fam_outs = []
    for i, v in enumerate(picks):
        n = {"KQ": 1, "KR": 1}.get(v, len(v) - 1)
        slices = {1: 64, 2: 1792, 3: 1792}[n]
        r2 = ctx.tlc("Families", "Families_search.cfg", env={"VERIF_FAMILY": "mate", "VERIF_VARIANT": v, "VERIF_FILE": 0, "VERIF_EDGE": 0 if n < 3 else 1,
                     "VERIF_NEAR": 0 if n < 3 else 1, "VERIF_HM": 0, "VERIF_EXTRA": "", "VERIF_EXTRA2": "", "VERIF_SLICE": (ctx.seed * 11 + i) % slices, "VERIF_SLICES": slices,
                     "VERIF_KEYS": ctx.keys()}, workers=NCPU, timeout=3000, name="mirror-fam-" + v)
        if ctx.tlc_hard_errors(r2) or r2["violated"]:
            raise ToolError("TLC failed generating material family %s: %s" % (v, (r2["errors"] + r2["violated"])[:3]))
        fam_outs.append(r2)
        ctx.cov["states"] += r2["distinct"]
        ctx.cov["transitions"] += r2["generated"]
    # positions in which an en-passant capture is possible (the double step is played by the specification), so that a
    # search treats the one capture that lands on an empty square alike for both colours
    r3 = ctx.tlc("Families", "Families_search.cfg", env={"VERIF_FAMILY": "ep", "VERIF_VARIANT": "rbq"[ctx.seed % 3], "VERIF_FILE": (ctx.seed * 3 + 1) % 8,
                 "VERIF_EDGE": 0, "VERIF_NEAR": 0, "VERIF_HM": 0, "VERIF_EXTRA": "", "VERIF_EXTRA2": "", "VERIF_SLICE": ctx.seed % 16 if quick else ctx.seed % 8,
                 "VERIF_SLICES": 16 if quick else 8, "VERIF_KEYS": ctx.keys()}, workers=NCPU, timeout=3000, name="mirror-fam-ep")
    if ctx.tlc_hard_errors(r3) or r3["violated"]:
        raise ToolError("TLC failed generating the en-passant family: %s" % (r3["errors"] + r3["violated"])[:3])
    fam_outs.append(r3)
    ctx.cov["states"] += r3["distinct"]
    ctx.cov["transitions"] += r3["generated"]
    # keep the lines the specification marks as promotion-free at the root
    keep = os.path.join(ctx.work, "pairs.txt")
    n = 0
    with open(keep, "w") as out:
        for line in open(res["out_path"], errors="replace"):
            if line.startswith('<<"SPOS"') and '\\"nopromo\\":true' in line:
                out.write(line)
                n += 1
        cap = 700 if quick else 20000
        import re
        for r2 in fam_outs:
            k = 0
            only_ep = r2 is r3
            limit = cap if not only_ep else (700 if quick else 3000)
            for line in open(r2["out_path"], errors="replace"):
                # of the en-passant family only the positions in which the capture is available
                if only_ep and not re.search(r' [a-h][36] \d+ \d+\\",\\"mirror', line):
                    continue
                if line.startswith('<<"SPOS"') and '\\"nopromo\\":true' in line and k < limit:
                    out.write(line)
                    n += 1
                    k += 1
            os.remove(r2["out_path"])
    os.remove(res["out_path"])
    jobs = max(1, NCPU - 2)
    # the thorough tier records long searches: many small traces (each is loaded whole by the validator)
    nparts = jobs if quick else jobs * 6
    parts = [open(os.path.join(ctx.work, "pairs.%d" % i), "w") for i in range(nparts)]
    # quick: a third of the generated pairs; thorough: at most about 12000 pairs (an even sample of what was generated)
    stride = 3 if quick else max(1, -(-n // 12000))
    ctx.cov["steps"].append({"step": "pairs kept for searching", "generated": n, "stride": stride})
    for k, line in enumerate(open(keep)):
        if k % stride != ctx.seed % stride:
            continue
        parts[(k // stride) % nparts].write(line)
    for p in parts:
        p.close()

    def one(a):
        i, p = a
        tr = os.path.join(ctx.work, "mirror-%d.ndjson" % i)
        h = ctx.harness(["replay-search", "--mirror", "--polls", 2500 if quick else 20000, "--out", tr], stdin_path=p.name, timeout=3000)
        nl = validate_search_trace(ctx, tr, "mirror-%d" % i) if os.path.getsize(tr) else 0
        return h, tr, nl

    pairs = depths = total = 0
    for h, tr, nl in ctx.pmap(one, list(enumerate(parts))):
        ctx.absorb(h)
        for pn in h["panics"]:
            ctx.violation("panic", pn, {"kind": "panic", "panic": pn})
        s = h["summary"] or {"counts": {"pairs": 0, "common_depths": 0}, "samples": []}
        pairs += s["counts"]["pairs"]
        depths += s["counts"]["common_depths"]
        total += nl
        for smp in s["samples"][:1]:
            ctx.sample({"direction": "spec->impl->spec", **smp})
        os.remove(tr)
    ctx.cov["states"] += res["distinct"]
    ctx.cov["transitions"] += res["generated"]
    ctx.cov["evaluations"] += depths
    ctx.cov["distinct_nontrivial"] += pairs
    ctx.cov["traces_validated_against_impl"] += 2 * pairs
    ctx.cov["steps"].append({"step": "mirror pairs", "generated": n, "pairs_searched": pairs, "depths_compared": depths, "events_validated": total})
    ctx.assumptions += ASSUME + ["both searches of a pair get the same number of polls; the comparison covers the depths both completed"]
