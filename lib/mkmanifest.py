#!/usr/bin/env python3
"""Regenerate /verif/MANIFEST.json from the table below (one entry per built check).
Properties without an entry are listed under not_applicable with the reason given in NA."""
import json
import os
import subprocess

HERE = os.path.dirname(os.path.abspath(__file__))
VERIF = os.path.dirname(HERE)

TECH = "explicit TLA+ spec + TLC; spec->impl replay and impl->spec trace validation"
NOTE = ("Trusted: TLC; layer R of the specification (validated against published perft path counts, colour "
        "symmetry and inductive validity by bin/selftest-spec); the projection code of the harness and the "
        "cfg-guarded read-only hooks; exploration is bounded (roots, depths, families and seeds are listed in "
        "the evidence file).")

CHECKS = {
    "C01": ("model_checking",
            "TLC explores the rules state machine (spec/Chess.tla via ChessMC.tla) breadth-first from ~100 roots chosen "
            "next to the rare interactions and prints, per distinct position, the legal set the rules prescribe; the "
            "harness replays each behaviour into the real generator and compares the yielded multiset, and is_legal over "
            "all 20480 triples on sampled positions. Seeded walks of the real code are validated the other way round by "
            "ChessTrace.tla. Complete within the stated roots and depth, sampled beyond.", TECH, "5/C01", NOTE),
    "C02": ("model_checking",
            "Same state machine: every replayed behaviour is played through move_new/move_mut/move_into and the projected "
            "successor (placement, side, rights, en-passant marker, clocks) must equal Apply of the specification; on "
            "sampled positions all 20480 triples are offered to each checked operation: accepted set = Legal and refusals "
            "leave receiver/output untouched.", TECH, "5/C02", NOTE),
    "C03": ("model_checking",
            "In-check flag, checking pieces and game status are compared with InCheck/Checkers/Classify of the "
            "specification on every position reached by BFS from check-, castling-, promotion-, en-passant- and clock-rich "
            "roots (incl. checkmate and stalemate standing at half-move clock >= 100) and on seeded walks; every moved board is compared with its twin rebuilt from text (legal moves, check, "
            "status, hash, Display, both Debug forms, caches).", TECH, "5/C03", NOTE),
    "C04": ("model_checking",
            "The hash is specified as a function of the position (spec/Hash.tla over the key table exported from the "
            "running code); TLC evaluates 'all 794 keys distinct and non-zero' on that table, and every explored/recorded "
            "position's incremental hash must equal the specified value and the twin's; equal positions observed by any route "
            "must carry equal hashes (independent of the transcribed formula). The incremental update scheme itself is "
            "transcribed (spec/HashSys.tla) and model-checked against the from-scratch hash over the game state machine.", TECH, "5/C04", NOTE),
    "C05": ("model_checking",
            "ToFEN of the specification is the reference text: for every explored position the writer must produce it "
            "byte for byte, the parser must accept it and return the identical board (fields, hash, caches), "
            "parse-then-write must reproduce it, and the builder (and standard()) must produce the identical board. "
            "Clock values 0..9999.", TECH, "5/C05", NOTE),
    "C06": ("model_checking",
            "(b) every distinct board the parser or the builder returns for ~1M mutated/random byte strings and seeded "
            "random assemblies is projected and TLC evaluates ValidPosition of spec/Chess.tla on it (ChessTrace.tla, "
            "action Parsed; a sample is checked like any other position); (c) TLC generates reachable positions with "
            "their canonical text and the parser must accept each; (a) 'never panics for any byte string' is explored "
            "only: byte- and field-level mutations of canonical texts plus seeded random strings in an assertion-enabled build.",
            "explicit TLA+ spec + TLC; impl->spec trace validation of accepted boards, spec->impl replay of canonical texts; exploration for totality",
            "5/C06", "Trusted: TLC; ValidPosition as the property's list of conditions; obligation (a) is exploration, not a decision."),
    "C11": ("model_checking",
            "The control skeleton of the iterative-deepening loop (spec/Search.tla, one action per critical section, "
            "nondeterministic monotone expiry) is model-checked exhaustively for the C11 invariants, 'no commit after "
            "expiry' and termination, and its safety part is proved with TLAPS for any set of root moves and any number of "
            "passes (spec/SearchProofs.tla, inductive invariant). The real engine is run with a counting limit expiring first at poll k for every k "
            "up to the cost of three passes on small positions (seeded k on larger ones, with and without repetition "
            "history; positions with a single legal move); the recorded run is validated against layer R by spec/SearchTrace.tla: the "
            "properties are decided on what the search returns and on the commits as the observation of a finished pass; "
            "disagreements with the control skeleton are drift.",
            "explicit TLA+ spec + TLC model checking; impl->spec trace validation", "5/C11",
            "Trusted: TLC; layer R; hook placement at the linearization points; polls deep in the tree are counted, not logged."),
    "C12": ("model_checking",
            "TLC enumerates placement families (K+Q, K+R, K+Q vs pawn shield, K+R+R, K+B+N; defending king on the edge, "
            "attacking king at supporting distance; both colours) and BFS states of mate-rich roots; the engine searches "
            "each until its first pass is committed; spec/SearchTrace.tla recomputes MateMoves of layer R and demands a "
            "mating move with the mover's mate-in-one score when one exists and no mate-in-one score otherwise. Further "
            "families emit only positions whose mate is a capture (attackers x defenders, incl. the ones that leave two knights), whose mover is in check with one "
            "or two legal moves, whose mate is an under-promotion or a push-promotion beside a possible capture, or whose mating "
            "move is played at half-move clock 99; a battery family (back-rank exchanges) looks for mate-in-one scores "
            "reported for the first capture of a longer forced line.",
            "explicit TLA+ spec + TLC behaviour generation; impl->spec trace validation", "5/C12",
            "Trusted: TLC; layer R; the limit used lets exactly the first pass finish."),
    "C13": ("model_checking",
            "TLC generates positions with their colour mirror (promotion-free at the root, decided by the specification); "
            "the default engine searches both under the same poll budget; per-depth committed scores must be negations "
            "(spec/Score.tla) for every depth both completed (spec/SearchTrace.tla, event mirror_pair). Material families around "
            "the evaluation thresholds and an en-passant family (capture available at the root) are added to the BFS states.",
            "explicit TLA+ spec + TLC behaviour generation; impl->spec trace validation", "5/C13",
            "Trusted: TLC; Mirror/Neg of the specification; sampled positions (BFS depth 1 from the root set), not all reachable ones."),
    "C07": ("exploration",
            "Preconditions of the unchecked operations are stated on the abstract position and model-checked by TLC over "
            "BFS from extremal roots (EntryDemand <= 18 with roots that reach exactly 18, kings present, validity "
            "inductive). The implementation is explored: every scenario of the framework (walks, iterator sequences, "
            "parser/builder on ~200k arbitrary inputs, bitboards, text, the whole book, sliders, searches at every early "
            "expiry instant, >65536 passes on O(1) trees, 1100-ply manoeuvres through the plugin followed by searches, "
            "16-bit move counters at their maximum, repetition histories beyond an 8-bit count) runs in a build with "
            "debug assertions and overflow checks; any panic or abnormal exit is a violation.",
            "explicit TLA+ spec + TLC for the preconditions; exploration of the implementation under an assertion-enabled build",
            "5/C07", "Undefined behaviour that does not trap is not observable; 'all sequences of safe calls' is sampled."),
    "C14": ("proof",
            "The order is specified in spec/Score.tla and proved with TLAPS for all payloads (spec/ScoreProofs.tla: "
            "irreflexive, asymmetric, transitive, total up to equality, layers, within-kind directions, Neg reverses). "
            "The implementation's cmp/partial_cmp/==/</<=/>/>=/max/min are compared with the proved order on all pairs of "
            "a grid of boundary and seeded payloads by TLC (spec/ScoreTrace.tla).",
            "TLAPS proof of the specified order; pairwise TLC validation of the implementation against it", "5/C14",
            "Trusted: tlapm and its back ends; Score.tla states the intended order; the implementation is bound on a finite grid."),
    "C15": ("model_checking",
            "The plugin is specified as a state machine over layer R (spec/BotTrace.tla: position + identities produced "
            "since set_board). The real cdylib is loaded through chess_api and driven with legal/illegal moves, undo "
            "moves and quiet shuffles that repeat positions, set_board in the middle, evaluate under counting limits; "
            "TLC validates every call: applied iff legal, reported board = Apply, flag iff third occurrence, proposal legal. "
            "Whole games between two instances driven like chess-cli's tournament loop are validated by the same module "
            "(instances in step, verdict of the loop = verdict of the rules). The repetition table is model-checked for short "
            "call sequences (spec/Bot.tla) and proved for histories of any length with TLAPS (spec/BotProofs.tla).",
            "explicit TLA+ spec + TLC; impl->spec trace validation through the real cdylib", "5/C15",
            "Trusted: TLC; layer R; set_board's own position is not counted as an occurrence (reading of the property)."),
    "C16": ("model_checking",
            "Encodings specified in spec/Abi.tla (TLC ASSUMEs Dec(Enc(x)) = x and distinctness on all 20480 moves + none); "
            "the opaque mirrors are observed by round trip: all moves through both mirrors, 'no move' with every score "
            "kind, present moves paired with every kind of score, mate distances (all 2x65536 in thorough), numeric scores at extremes/around zero/seeded; TLC validates "
            "each recorded result. Thinnest use of the technique (enumeration with the spec as domain and oracle).",
            "explicit TLA+ spec + TLC; impl->spec validation of exhaustive round trips", "5/C16",
            "Trusted: TLC; numeric scores sampled."),
    "C08": ("model_checking",
            "For every square TLC enumerates subsets of the square's own ray squares with the attack set obtained by ray "
            "casting in the specification (spec/Geometry.tla: RayAttack); the harness looks each up in the real magic "
            "tables (plain, own square occupied, all off-ray squares occupied, seeded off-ray noise) in a build whose "
            "debug assertions trap an out-of-range index. thorough = all 1,119,744 (square, kind, ray subset) cases; "
            "quick = all inner-ray subsets of every square + all subsets of four squares.",
            "explicit TLA+ spec + TLC behaviour generation; spec->impl replay", "5/C08",
            "Trusted: TLC; the reduction stated by the property (the answer depends only on the square's own rays; "
            "independence from other squares is sampled)."),
    "C09": ("model_checking",
            "TLC computes every table from geometric definitions by coordinate arithmetic (spec/Geometry.tla) and prints "
            "them; the harness compares chess-lookup's accessors, chess-lookup-generator's functions, the pawn helpers "
            "under all relevant occupancies (and off-relevant noise) and every constant. Finite and complete.",
            "explicit TLA+ spec + TLC behaviour generation; spec->impl replay", "5/C09",
            "Trusted: TLC; the definitions in spec/Geometry.tla (their mutual consistency is ASSUMEd and checked by TLC)."),
    "C17": ("model_checking",
            "The trie is exported through the public iterator and TLC model-checks the whole graph (spec/Book.tla over "
            "layer R): every edge is a legal promotion-free move in the position its path reaches from the standard "
            "start, no path exceeds the termination bound, children stay inside the table; the implementation's own walk (move_new on "
            "every edge, assertion-enabled build) must reach the same position text at every node, and every node's iterator "
            "driven with nth / step_by / count / last must stay inside the node's own list. Layer S (spec/BookSys.tla): the decoder "
            "as implemented, over the raw 87,204-word table read through a hook - every cursor the iterator can reach is a state "
            "(58k): reads stay inside the table, every step decreases the cursor (termination), and the decoded lists are the "
            "exported lists (binding; drift if not). Complete (29k nodes).",
            "explicit TLA+ spec + TLC model checking; impl walk compared node by node", "5/C17",
            "Trusted: TLC; layer R; node identity = Debug text of BookMoves; unreachable table indices are out of scope."),
    "C18": ("model_checking",
            "Bitboard operations are specified as set operations (spec/BitSet.tla). TLC enumerates the family (empty, "
            "full, all one- and two-square boards, files, ranks; pairs of them for binary operations) with expected "
            "results incl. iteration order and nth(n) for every n up to count+1; replayed on BitBoard. Seeded random "
            "boards go the other way (recorded, validated by spec/BitSetTrace.tla).",
            TECH, "5/C18",
            "Trusted: TLC; square-wise structure of the operations (stated by the property) to extend from the family "
            "to all 2^64 boards; to_u64/from_u64 as identity."),
    "C19": ("model_checking",
            "Parsers: the harness records the graph of each parser over complete domains (256 bytes, 65536 two-byte "
            "strings, all 4/5-byte strings over an alphabet of relevant bytes, seeded random strings), written forms and "
            "the coordinate algebra; TLC recomputes them from spec/Text.tla. Iterators: TLC generates the full state "
            "graph of the slice-iterator model (spec/EnumIter.tla) and each transition is replayed on the real "
            "Color/Side/Piece/File/Rank::all(), Pos::all(), File::iter, Rank::iter.",
            TECH, "5/C19",
            "Trusted: TLC; move strings are enumerated over an alphabet (listed in the run), not all 256^5 strings."),
    "C10": ("model_checking",
            "The iterator contract is a TLA+ state machine (spec/MoveIter.tla: set of remaining moves + mask). The harness "
            "drives real MoveGen instances through systematic and seeded operation sequences (next, len, is_empty, "
            "size_hint, set_mask, remove, remove_move, clone, count, legals_masked) and TLC validates every recorded call "
            "(spec/MoveIterTrace.tla). Two recorded known findings are replayed from their witnesses.",
            "explicit TLA+ spec + TLC; impl->spec trace validation", "5/C10",
            "Trusted: TLC; the recording code of the harness. The boolean result of remove_move and widening the mask of "
            "a generation-restricted iterator are unspecified and unchecked; histories inside the two known-finding "
            "classes (a call that moves the promotion cursor off the destination in progress; remove_move of a promotion) "
            "are not generated."),
    "C20": ("model_checking",
            "spec/Tracing.tla (global flag, per-thread override and saved override, nine operations per thread) is "
            "explored completely for two threads by TLC: view invariant, non-interference action property, take/restore "
            "round trip. Every transition of the graph (8496) is one behaviour replayed on two real OS threads stepped "
            "through channels; both threads' is_enabled() must equal the specified views after every step.",
            "explicit TLA+ spec + TLC model checking; one spec->impl replay per transition", "5/C20",
            "Trusted: TLC; operations are observed after completion (each touches the shared flag at most once)."),
}

NA = {}
DEFAULT_NA = "check not built yet in this round (planned: see DESIGN.md section 5)"


def main():
    props = [json.loads(l) for l in open(os.path.join(VERIF, "properties.jsonl"))]
    hooks = subprocess.run(["git", "-C", "/repo", "log", "--format=%h", "--grep", "^verif hooks"],
                           stdout=subprocess.PIPE, text=True).stdout.split()
    checks = []
    for pid, (cat, text, tech, ref, note) in CHECKS.items():
        checks.append({
            "property_id": pid,
            "quick_cmd": "bin/vcheck %s --tier quick" % pid,
            "thorough_cmd": "bin/vcheck %s --tier thorough" % pid,
            "evidence_file": "/verif/evidence/%s.json" % pid,
            "replay_cmd_template": "bin/vcheck --replay {path}",
            "engine": "tlc+vh",
            "level_claimed": {"category": cat, "text": text, "design_ref": "DESIGN.md section " + ref},
            "level_note": note,
            "technique": tech,
        })
    na = [{"property_id": p["id"], "reason": NA.get(p["id"], DEFAULT_NA)} for p in props if p["id"] not in CHECKS]
    m = {
        "version": 1,
        "setup_cmd": "bin/setup",
        "hooks": {
            "guard": "rustyyato_chess_verif",
            "enable": "RUSTFLAGS --cfg rustyyato_chess_verif (set in /verif/harness/.cargo/config.toml; the harness is a "
                      "separate cargo workspace with path dependencies on /repo)",
            "baseline_off_cmd": "cd /repo && cargo test --workspace --no-fail-fast --offline",
            "source_commits": list(reversed(hooks)),
            "add_only": True,
        },
        "engines": [{"name": "tlc+vh", "path": "/verif/bin/vcheck", "serves_properties": list(CHECKS),
                     "kind_free_text": "TLA+ specification under /verif/spec checked with TLC; Rust conformance harness "
                                       "/verif/harness (replay of TLC-generated behaviours, recording of traces validated by TLC)"}],
        "checks": checks,
        "not_applicable": na,
        "notes": "See DESIGN.md. Genuine defects found (repaired or recorded) are listed in KNOWN_FINDINGS.txt.",
    }
    json.dump(m, open(os.path.join(VERIF, "MANIFEST.json"), "w"), indent=1)
    print("manifest:", len(checks), "checks,", len(na), "not applicable; hook commits", m["hooks"]["source_commits"])


if __name__ == "__main__":
    main()
