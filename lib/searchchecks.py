"""Shared steps of the search checks C11-C13: validate recorded search traces with
spec/SearchTrace.tla and turn BAD lines of the check's own property into violations."""
import json
import os
import shutil

from vlib import REPLAYS, ToolError


def validate_search_trace(ctx, tr, name, record_args=None):
    r = ctx.tlc("SearchTrace", "SearchTrace.cfg", env={"VERIF_TRACE": tr, "VERIF_KEYS": ctx.keys()}, workers=1, deque=True,
                timeout=2400, name=name)
    done = list(ctx.tlc_lines(r["out_path"], "DONE"))
    if not done or done[0]["lines"] != done[0]["consumed"]:
        raise ToolError("search trace validation failed (%s): %s %s" % (name, r["errors"][:3], done))
    bads = list(ctx.tlc_lines(r["out_path"], "BAD"))
    ctx.cov["states"] += r["distinct"]
    ctx.cov["transitions"] += r["generated"]
    os.remove(r["out_path"])
    if bads:
        lines = open(tr).read().split("\n")
        kept = None
        seen = {}
        for b in bads:
            if b["prop"] == "FRAMEWORK":
                raise ToolError("framework error in search trace %s line %d: %s" % (name, b["line"], b["check"]))
            if b["prop"] == "DRIFT":
                ctx.cov["model_drift"] += 1
                d = ctx.cov.setdefault("drift_checks", {})
                d[b["check"]] = d.get(b["check"], 0) + 1
                continue
            if b["prop"] != ctx.prop:
                ctx.other(b["prop"])
                continue
            seen[b["check"]] = seen.get(b["check"], 0) + 1
            if seen[b["check"]] > 4:
                continue
            if kept is None:
                kept = os.path.join(REPLAYS, "%s-%s-%d-trace-%s.ndjson" % (ctx.prop, ctx.tier, ctx.seed, name))
                shutil.copy(tr, kept)
            # the search this line belongs to: back to its s_begin (and the one that carries the position)
            j = b["line"] - 1
            while j > 0 and json.loads(lines[j])["ev"] != "s_begin":
                j -= 1
            beg = json.loads(lines[j])
            ctx.violation(b["check"], {"trace_line": b["line"], "fen": beg.get("fen"), "meta": beg.get("meta"),
                                       "event": json.loads(lines[b["line"] - 1])},
                          {"kind": "trace", "record_args": record_args, "trace": kept, "line": b["line"], "module": "SearchTrace"})
    return done[0]["lines"]


ASSUME = [
    "TLC evaluates the specification correctly",
    "the engine's hook events are emitted at the linearization points named in DESIGN.md section 4.2 (pass start, after each root search, commit) and the polls are those of the harness's own counting limit",
    "polls deep inside the tree search are counted but not logged (except the first that reports expiry)",
]
